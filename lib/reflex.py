"""Reference lexer: the language's lexical rules written down independently of /repo (frozen).

tokens(text) -> list of (type, value, pos, line) ; raises LexError(pos) on an illegal character.
`line` is the 1-based *physical* line of the token's first character (number of '\n' before it + 1).
A line break is a NEWLINE token only at bracket depth 0; ';' always is.
"""
import re
from decimal import Decimal

KEYWORDS = {
    'and': 'AND', 'or': 'OR', 'in': 'IN', 'not': 'NOT', 'if': 'IF', 'else': 'ELSE',
    'True': 'TRUE', 'False': 'FALSE', 'None': 'NONE', 'del': 'DEL',
    'for': 'FOR', 'while': 'WHILE', 'break': 'BREAK', 'continue': 'CONTINUE', 'def': 'DEF',
    'raise': 'RAISE', 'elif': 'ELIF',
}

# order matters exactly as far as the alternatives overlap
_SPEC = [
    ('NEWLINE', r'\r\n|\n|;'),
    ('LPAREN', r'\('), ('RPAREN', r'\)'), ('LBRACKET', r'\['), ('RBRACKET', r'\]'),
    ('LBRACE', r'\{'), ('RBRACE', r'\}'),
    ('STRING', r'''r?"(?:[^\\\n]|\\.)*?"|r?'(?:[^\\\n]|\\.)*?\''''),
    ('NUMBER', r'\d+(?:\.\d+)?'),
    ('NAME', r'%.*?%|[^\W\d]\w*'),
    ('COMMENT', r'\#.*'),
    ('SHORT_OP', r'[+\-*/]='), ('POWER', r'\*\*'),
    ('EQ', r'=='), ('NE', r'!='), ('GTE', r'>='), ('LTE', r'<='), ('LAMBDA', r'=>'),
    ('PLUS', r'\+'), ('TIMES', r'\*'), ('DOT', r'\.'), ('PIPE', r'\|'),
    ('ASSIGN', r'='), ('GT', r'>'), ('LT', r'<'), ('MINUS', r'-'), ('DIVIDE', r'/'),
    ('COMMA', r','), ('COLON', r':'),
]
_RX = re.compile('|'.join('(?P<%s>%s)' % p for p in _SPEC))
OPEN = {'LPAREN', 'LBRACKET', 'LBRACE'}
CLOSE = {'RPAREN', 'RBRACKET', 'RBRACE'}


class LexError(Exception):
    def __init__(self, pos, ch):
        super().__init__('illegal character %r at %d' % (ch, pos))
        self.pos, self.ch = pos, ch


def string_value(raw):
    if raw[0] != 'r':
        return raw[1:-1].replace(r'\n', '\n').replace(r'\t', '\t').replace(r'\'', "'").replace(r'\"', '"')
    return raw[2:-1]


def tokens(text, keep_layout=False):
    out = []
    pos, depth, n = 0, 0, len(text)
    while pos < n:
        c = text[pos]
        if c == ' ' or c == '\t':
            pos += 1
            continue
        m = _RX.match(text, pos)
        if not m:
            err = LexError(pos, c)
            err.tokens = out            # the tokens before the illegal character
            raise err
        typ = m.lastgroup
        raw = m.group()
        line = text.count('\n', 0, pos) + 1
        if typ == 'NEWLINE':
            if raw == ';' or depth == 0:
                out.append(('NEWLINE', raw, pos, line))
            elif keep_layout:
                out.append(('~NL', raw, pos, line))
        elif typ == 'COMMENT':
            if keep_layout:
                out.append(('~COMMENT', raw, pos, line))
        else:
            if typ in OPEN:
                depth += 1
            elif typ in CLOSE:
                depth -= 1
            val = raw
            if typ == 'STRING':
                val = string_value(raw)
            elif typ == 'NUMBER':
                val = Decimal(raw)
            elif typ == 'NAME':
                typ = KEYWORDS.get(raw, 'NAME')
            out.append((typ, val, pos, line))
        pos = m.end()
    return out


def names(text):
    """identifiers in source order, up to the first illegal character -> (names, LexError|None)"""
    try:
        return [t[1] for t in tokens(text) if t[0] == 'NAME'], None
    except LexError as e:
        # every token before the illegal character ends before it, so the prefix lexes identically
        return [t[1] for t in tokens(text[:e.pos]) if t[0] == 'NAME'], e
