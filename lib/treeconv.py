"""Implementation tree -> neutral tree (the shape lib/refparser.py produces), by duck-typing on the
node class name so that it follows refactorings of field order.  Values are type-tagged by norm()."""
from decimal import Decimal


def conv(op):
    n = type(op).__name__
    if n == 'ValueOp':
        return ('Value', op.v)
    if n == 'NameOp':
        return ('Name', op.name)
    if n == 'BinOp':
        return ('Bin', op.op, conv(op.op1), conv(op.op2))
    if n == 'UnaryOp':
        return ('Unary', op.op, conv(op.op1))
    if n == 'CallOp':
        return ('Call', op.name, tuple(conv(a) for a in op.args), None)
    if n == 'CodeOp':
        return ('Code', tuple(conv(l) for l in op.lines))
    if n == 'LambdaOp':
        return ('Lambda', tuple(conv(a) for a in op.args), conv(op.expr))
    if n == 'IfExprOp':
        return ('If', conv(op.cond), conv(op.op1), conv(op.op2))
    if n == 'AssignOp':
        return ('Assign', op.name, conv(op.value))
    if n == 'ShortOp':
        return ('Short', op.name, op.op, conv(op.value))
    if n == 'DictOp':
        return ('Dict', tuple((conv(k), conv(v)) for k, v in op.d))
    if n == 'SliceOp':
        return ('Slice', conv(op.start), conv(op.stop), conv(op.step))
    if n == 'NoOp':
        return ('NoOp',)
    if op is None:
        return ('Missing',)
    return ('Unknown', n)


def norm(t):
    """type-tag leaves (True != 1 != Decimal(1)), drop the ref parser's idx/slice annotation"""
    if isinstance(t, tuple):
        if t and t[0] == 'Value':
            v = t[1]
            if isinstance(v, Decimal):
                return ('Value', 'Decimal', str(v))
            return ('Value', type(v).__name__, repr(v))
        if t and t[0] == 'Call':
            return ('Call', t[1], tuple(norm(x) for x in t[2]))
        return tuple(norm(x) for x in t)
    return t
