"""Driver for a history-free call in a FRESH PROCESS (C11): module-level state of the package - memos, caches, the
decimal context, the builtin table - starts from scratch here.

one-shot:  stdin: pickle {sandbox, entry, src, template, budget, k} -> stdout: pickle(outcome)
--serve:   a zygote that has imported the interpreter-level prerequisites (stdlib, regex, the harness modules) but NOT the package under test;
           for every request (4-byte length + pickle on stdin) it forks a child, and only the child imports the package, builds a parser, serves
           that single call and exits.  The zygote itself never evaluates anything, so every child starts from the state a new process has
           (fresh package modules, pristine decimal context and flags, empty regex cache); forking saves the interpreter start-up and
           harness imports per call.  Replies: 4-byte length + pickle(outcome), length 0 = the child failed.
"""
import os
import pickle
import struct
import sys

sys.path.insert(0, os.path.dirname(os.path.dirname(os.path.abspath(__file__))))


def serve_one(req):
    from lib import sandbox
    sandbox.activate(req['sandbox'])
    from smartquery import SqParser
    from checks import c11
    names = c11.fresh_names(req['template']) if (req['entry'] == 'eval' and req['template'] >= 0) else None       # template -1: eval(text) with names omitted
    return c11.do_call(SqParser(), req['entry'], req['src'], names, req['budget'], req['k'])


def main():
    req = pickle.loads(sys.stdin.buffer.read())
    sys.stdout.buffer.write(pickle.dumps(serve_one(req)))


def read_exact(f, n):
    buf = b''
    while len(buf) < n:
        chunk = f.read(n - len(buf))
        if not chunk:
            return None
        buf += chunk
    return buf


def serve():
    import signal
    import regex        # noqa  (prerequisite of the package, holds no state before its first use)
    import decimal      # noqa
    from checks import c11   # noqa  (harness side only: must not import the package)
    assert not [m for m in sys.modules if m == 'smartquery' or m.startswith('smartquery.')], 'zygote imported the package'
    inp, out = sys.stdin.buffer, sys.stdout.buffer
    while True:
        head = read_exact(inp, 4)
        if head is None:
            return
        req = pickle.loads(read_exact(inp, struct.unpack('>I', head)[0]))
        r, w = os.pipe()
        pid = os.fork()
        if pid == 0:
            try:
                os.close(r)
                signal.alarm(60)
                data = pickle.dumps(serve_one(req))
                with os.fdopen(w, 'wb') as f:
                    f.write(data)
            finally:
                os._exit(0)
        os.close(w)
        with os.fdopen(r, 'rb') as f:
            data = f.read()
        os.waitpid(pid, 0)
        out.write(struct.pack('>I', len(data)) + data)
        out.flush()


if __name__ == '__main__':
    if '--serve' in sys.argv:
        serve()
    else:
        main()
