"""Driver for a history-free call in a FRESH PROCESS (C11): module-level state of the package - memos, caches, the
decimal context, the builtin table - starts from scratch here.   stdin: pickle {sandbox, entry, src, template, budget, k} -> stdout: pickle(outcome)"""
import os
import pickle
import sys

sys.path.insert(0, os.path.dirname(os.path.dirname(os.path.abspath(__file__))))


def main():
    req = pickle.loads(sys.stdin.buffer.read())
    from lib import sandbox
    sandbox.activate(req['sandbox'])
    from smartquery import SqParser
    from checks import c11
    names = c11.fresh_names(req['template']) if req['entry'] == 'eval' else None
    out = c11.do_call(SqParser(), req['entry'], req['src'], names, req['budget'], req['k'])
    sys.stdout.buffer.write(pickle.dumps(out))


if __name__ == '__main__':
    main()
