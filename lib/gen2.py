"""G2 - type-directed program generator (DESIGN.md Appendix C, 'typing discipline').

gen_program(rnd, ...) -> (source text, host names dict (plain data + optional host callbacks), meta)
Types: 'num' 'str' 'bool' 'none' ('list', t) ('dict', t) and lambdas ('fn', (t...), t).
The generator keeps facts that make operations total (list lengths, dict keys, non-zero divisors) and, with a
small probability, deliberately violates exactly one of them (meta['fault'] says which).
Everything is parenthesised where precedence could matter: the oracle reads the rendered text anyway.
"""
from decimal import Decimal

D = Decimal
SCALARS = ['num', 'str', 'bool', 'none']
STRS = ['"abc"', '"Hello World"', "'q'", '""', '"a,b,c"', '"x y z"', '"10"', 'r"a\\d"', '"Ünï"', '"line1\\nline2"']
NUMS = ['0', '1', '2', '3', '7', '10', '2.5', '2.50', '1.0', '1.5', '10.0', '007', '0.10', '0.1', '1.50', '100', '12345', '0.001', '99.99', '1234567.891', '0.0000001', '0.00000025', '1000000000000000000000000000000']
KEYS = ['"a"', '"b"', '"k"', '1', '2.5', 'True', '"x y"']


class Env:
    def __init__(self, rnd):
        self.r = rnd
        self.vars = {}        # name -> type
        self.lens = {}        # list/str var -> exact length when known
        self.keys = {}        # dict var -> list of key source texts known to exist (after str cast)
        self.fresh = 0
        self.fault = None
        self.want_fault = False
        self.params = []      # stack of lambda parameter scopes: [{name: type}]
        self.used = set()

    def new_name(self, prefix='v'):
        self.fresh += 1
        pool = ['x', 'y', 'acc', 'tmp', 'имя', '%my var%', 'len', 'str', 'k', 'v', 'n', 'max', 'item',
                # a name is an opaque string: spellings that Unicode normalisation (NFC / NFKC) would rewrite stay distinct from their normal forms
                '\u00b5', '\u2126m', 'x\u00b2', '\uff58', '\ufb01le', '%\ufb01le.size%', '\u212bx']
        if self.r.random() < 0.25:
            n = self.r.choice(pool)
            if n not in self.vars:
                return n
        return '%s%d' % (prefix, self.fresh)

    def of_type(self, t):
        out = [n for n, ty in self.vars.items() if ty == t]
        for sc in self.params:
            out += [n for n, ty in sc.items() if ty == t]
        # a parameter shadows a variable of the same name with another type
        shadow = {n for sc in self.params for n in sc}
        return [n for n in out if n not in shadow or any(sc.get(n) == t for sc in self.params[-1:])]

    def lookup_type(self, n):
        for sc in reversed(self.params):
            if n in sc:
                return sc[n]
        return self.vars.get(n)


def elem_types(r):
    return r.choice(['num', 'num', 'str', 'bool', ('list', 'num')])


def gen(e, t, d):
    """source text of an expression of type t"""
    r = e.r
    if t == 'any':
        t = r.choice(['num', 'num', 'str', 'bool', 'none', ('list', 'num'), ('list', 'str'), ('dict', 'num')])
    if isinstance(t, tuple) and t[0] == 'list':
        return gen_list(e, t[1], d)
    if isinstance(t, tuple) and t[0] == 'dict':
        return gen_dict(e, t[1], d)
    if t == 'num':
        return gen_num(e, d)
    if t == 'str':
        return gen_str(e, d)
    if t == 'bool':
        return gen_bool(e, d)
    if t == 'none':
        # None reaches names in many ways: literally, from the host, as the result of a miss
        x = r.randrange(8)
        if x < 3:
            return var_or(e, 'none', lambda: 'None')
        if x == 3:
            return 'index_of(%s, %s)' % (gen_list(e, 'num', max(0, d - 1)), '"absent"')
        if x == 4:
            return 'get(%s, "zz")' % gen_dict(e, 'num', max(0, d - 1))
        if x == 5:
            return 'match(%s, "QQQ")' % gen_str(e, max(0, d - 1))
        return 'None'
    raise ValueError(t)


def var_or(e, t, alt):
    vs = e.of_type(t)
    if vs and e.r.random() < 0.6:
        n = e.r.choice(vs)
        e.used.add(n)
        return n
    return alt()


def gen_num(e, d):
    r = e.r
    if d <= 0:
        return var_or(e, 'num', lambda: r.choice(NUMS))
    if r.random() < 0.03:
        # a host float: legal on its own and with other floats/ints, a type error against decimals (Python semantics either way)
        return r.choice(['h_float', '(h_float * 2)', '(h_float + h_int)', 'round(h_float, 1)', 'int(h_float)', '(-h_float)', 'str(h_float)', '(h_float < 1)', 'abs(h_float)'])
    c = r.randrange(24)
    if c < 3:
        return var_or(e, 'num', lambda: r.choice(NUMS))
    if c < 8:
        op = r.choice(['+', '-', '*', '+', '-'])
        return '(%s %s %s)' % (gen_num(e, d - 1), op, gen_num(e, d - 1))
    if c == 8:
        return '(%s / %s)' % (gen_num(e, d - 1), r.choice(['2', '4', '3', '0.5', '7', '(1 + %s * %s)' % ((gen_num(e, 0),) * 2) if False else '8']))
    if c == 9:
        if r.random() < 0.3:
            return r.choice(['(10 ** 30)', '(100 / 0.1)', '(2 ** 100)', '(1 / 3)', '(0.001 * 0.0001)', '(10 ** (0 - 7))'])
        return '(%s ** %s)' % (gen_num(e, d - 2) if r.random() < 0.5 else r.choice(['2', '3', '1.5', '10']), r.choice(['0', '1', '2', '3']))
    if c == 10:
        return '(-%s)' % gen_num(e, d - 1)
    if c == 11:
        return 'len(%s)' % (gen_str(e, d - 1) if r.random() < 0.5 else gen_list(e, elem_types(r), d - 1))
    if c == 12:
        l, n = known_list(e, 'num', d)
        if n > 0:
            return '%s[%s]' % (l, index_text(r, n))
        return gen_num(e, d - 1)
    if c == 13:
        dd, ks = known_dict(e, 'num', d)
        if ks:
            return '%s[%s]' % (dd, r.choice(ks))
        return gen_num(e, d - 1)
    if c == 14:
        if r.random() < 0.15:
            return 'sum(%s)' % gen_num(e, d - 1)          # sum of a non-list is the value itself
        return 'sum(%s)' % gen_list(e, 'num', d - 1)
    if c == 15:
        return '%s(%s, %s)' % (r.choice(['min', 'max']), gen_num(e, d - 1), gen_num(e, d - 1))
    if c == 16:
        f = r.choice(['round', 'floor', 'ceil', 'abs', 'int', 'round2', 'floor', 'ceil', 'float'])
        if f == 'round2':
            return 'round(%s, %s)' % (gen_num(e, d - 1), r.choice(['0', '1', '2', '3']))
        return '%s(%s)' % (f, gen_num(e, d - 1))
    if c == 17:
        return '(%s if %s else %s)' % (gen_num(e, d - 1), gen_bool(e, d - 1), gen_num(e, d - 1))
    if c == 18:
        l, n = known_list(e, 'num', d)
        if n > 0:
            return 'reduce(%s, (a, b) => (a + b))' % l
        return gen_num(e, d - 1)
    if c == 19:
        fs = [n for n, ty in e.vars.items() if isinstance(ty, tuple) and ty[0] == 'fn' and ty[2] == 'num']
        if fs:
            f = r.choice(fs)
            return call_lambda(e, f, d)
        return gen_num(e, d - 1)
    if c == 20:
        dd, ks = known_dict(e, 'num', d)
        return 'get(%s, %s, %s)' % (dd, r.choice(KEYS), gen_num(e, d - 1))
    if c == 21:
        if r.random() < 0.3:
            return 'try_(v => %s, %s)' % (lambda_body(e, {'v': 'num'}, 'num', d - 1), gen_num(e, d - 1))
        return '%s | %s' % (gen_list(e, 'num', d - 1), r.choice(['sum', 'len']))
    if c == 22:
        return '%s.%s()' % (gen_list(e, 'num', d - 1), r.choice(['sum', 'len']))
    return 'int(%s)' % r.choice(['"12"', '"007"', gen_num(e, d - 1)])


def index_text(r, n):
    """a valid index text for a sequence of length n >= 1"""
    i = r.randrange(n)
    c = r.randrange(5)
    if c == 0:
        return str(i - n)                      # negative from the end
    if c == 1:
        return '%d.%d' % (i, r.choice([5, 9, 25]))  # truncated toward zero
    if c == 2 and i > 0:
        return '(%d - 1)' % (i + 1)
    return str(i)


def known_list(e, et, d):
    """-> (source of a list<et> whose length is known, that length)"""
    r = e.r
    cands = [n for n in e.of_type(('list', et)) if n in e.lens]
    if cands and r.random() < 0.6:
        n = r.choice(cands)
        e.used.add(n)
        return n, e.lens[n]
    k = r.randint(1, 4)
    return '[%s]' % ', '.join(gen(e, et, max(0, d - 2)) for _ in range(k)), k


def known_dict(e, vt, d):
    r = e.r
    cands = [n for n in e.of_type(('dict', vt)) if e.keys.get(n)]
    if cands and r.random() < 0.6:
        n = r.choice(cands)
        e.used.add(n)
        return n, e.keys[n]
    ks = r.sample(KEYS, r.randint(1, 3))
    return '{%s}' % ', '.join('%s: %s' % (k, gen(e, vt, max(0, d - 2))) for k in ks), ks


RX_PATTERNS = ['"[a-z]+"', '"[A-Z]"', '"l+"', '"(l+)(o)"', '"^w"', '"o$"', '"^l"', '"."', '"a.c"', '"hello"', '"HELLO"', '"\\\\d+"', '"x|y"', '"(a)(b)?"', '"W.*d"', '"e.l"', '"^\\\\w+$"', '"QQQ"']
RX_FLAGS = ['', '', '', ', "i"', ', "I"', ', "m"', ', "s"', ', "im"', ', "MS"', ', "x"', ', ""', ', "ims"']


def regex_call(e, d):
    """match / match_groups / match_all over patterns on which `re` and `regex` agree, with every flag letter the language knows (case, multi-line, dot-all) -
    subjects include mixed case and a line break, so that each flag changes some outcome"""
    r = e.r
    # ASCII subjects only: under the ignore-case flag `re` (the reference) and `regex` (the implementation's engine) fold some non-ASCII letters differently
    subj = r.choice(['"Hello World"', '"hello\\nworld"', '"line1\\nLINE2"', '"abc ABC"', '"a,b,c"', '""', '"x y z"'])
    return '%s(%s, %s%s)' % (r.choice(['match', 'match_groups', 'match_all']), subj, r.choice(RX_PATTERNS), r.choice(RX_FLAGS))


def gen_str(e, d):
    r = e.r
    if d <= 0:
        return var_or(e, 'str', lambda: r.choice(STRS))
    c = r.randrange(17)
    if c == 16:
        return 'str(%s)' % regex_call(e, d)
    if c < 2:
        return var_or(e, 'str', lambda: r.choice(STRS))
    if c < 5:
        return '(%s + %s)' % (gen_str(e, d - 1), gen(e, r.choice(['str', 'num', 'bool', 'none', 'str', ('list', 'num'), ('dict', 'num'), ('list', 'str')]), d - 1))
    if c == 5:
        return '%s(%s)' % (r.choice(['upper', 'lower', 'strip']), gen_str(e, d - 1))
    if c == 6:
        return 'replace(%s, %s, %s)' % (gen_str(e, d - 1), r.choice(['"a"', '"b"', '" "', '"l"']), gen_str(e, 0))
    if c == 7:
        return 'str(%s)' % gen(e, r.choice(['num', 'str', 'bool', 'none', ('list', 'num'), ('dict', 'str')]), d - 1)
    if c == 8:
        return 'join(%s, %s)' % (gen_list(e, r.choice(['str', 'num']), d - 1), r.choice(['", "', '"-"', '""']))
    if c == 9:
        s = r.choice([x for x in STRS if len(x) > 4])
        return '%s[%s]' % (s, r.choice(['0', '1', '-1', '0.9', '1:', ':2', '::2', '::-1', '1:3', ':-1:', '1::', ':0', '0:', '2:0', '0:0', ':0.4', '::0', ':len("")', '1:(1 - 1)']))
    if c == 10:
        what = r.choice(['int', 'str', 'list', 'dict'])
        if what == 'int':
            return 'pretty(%s%s)' % (r.choice(['1234567', '12', '100000', '(-1234567)', '12345', '1000', '9999', '10000', '(-10000)', '123456789012']), r.choice(['', '', ', ","', ', "_"', ', ""']))
        if what == 'str':
            return 'pretty(%s)' % gen_str(e, d - 1)
        if what == 'list':
            return 'pretty(%s%s)' % (gen_list(e, r.choice(['num', 'str']), d - 1), r.choice(['', ', "; "']))
        return 'pretty(%s%s)' % (gen_dict(e, r.choice(['num', 'str']), d - 1), r.choice(['', '', ', "; "', ', " | "']))
    if c == 11:
        return '(%s if %s else %s)' % (gen_str(e, d - 1), gen_bool(e, d - 1), gen_str(e, d - 1))
    if c == 12:
        return 'reversed(%s)' % gen_str(e, d - 1)
    if c == 13:
        return '%s | %s' % (gen_str(e, d - 1), r.choice(['upper', 'lower', 'strip', 'str', 'reversed']))
    if c == 14:
        return '%s.%s' % (gen_str(e, d - 1), r.choice(['upper()', 'lower()', 'strip()', 'replace("a", "o")', 'strip("a")', 'replace("l", "L", 1)', 'replace("o", "0", 0)', 'replace("l", "", 2)',
                                                      'strip(" H")', 'strip("")' if False else 'strip("dl")']))
    return 'str(%s)' % gen_num(e, d - 1)


def gen_bool(e, d):
    r = e.r
    if d <= 0:
        return var_or(e, 'bool', lambda: r.choice(['True', 'False']))
    c = r.randrange(14)
    if c < 2:
        return var_or(e, 'bool', lambda: r.choice(['True', 'False']))
    if c < 5:
        return '(%s %s %s)' % (gen_num(e, d - 1), r.choice(['<', '>', '<=', '>=', '==', '!=']), gen_num(e, d - 1))
    if c == 5:
        return '(%s %s %s)' % (gen_str(e, d - 1), r.choice(['<', '>', '==', '!=', '<=']), gen_str(e, d - 1))
    if c == 6:
        if r.random() < 0.3:
            return '(%s %s None)' % (gen(e, 'none', d - 1), r.choice(['==', '!=']))
        t1 = r.choice(['num', 'str', 'bool', 'none', ('list', 'num')])
        t2 = r.choice([t1, t1, 'none', 'num', 'str'])
        return '(%s %s %s)' % (gen(e, t1, d - 1), r.choice(['==', '!=']), gen(e, t2, d - 1))
    if c == 7:
        et = r.choice(['num', 'str'])
        return '(%s %s %s)' % (gen(e, et, d - 1), r.choice(['in', 'not in']), gen_list(e, et, d - 1))
    if c == 8:
        return '(%s %s %s)' % (r.choice(['"a"', '"lo"', '" "', '""']), r.choice(['in', 'not in']), gen_str(e, d - 1))
    if c == 9:
        return '(%s in %s)' % (r.choice(['"a"', '"k"', '"1"', '"zz"']), gen_dict(e, 'num', d - 1))
    if c == 10:
        return '(not %s)' % gen(e, r.choice(['bool', 'bool', 'num', 'str', 'none', ('list', 'num')]), d - 1)
    if c == 11:
        return '(%s %s %s)' % (gen_bool(e, d - 1), r.choice(['and', 'or']), gen_bool(e, d - 1))
    if c == 12:
        return '%s(%s, %s)' % (r.choice(['startswith', 'endswith']), gen_str(e, d - 1), r.choice(['"a"', '"H"', '"c"', '""']))
    return '(%s if %s else %s)' % (gen_bool(e, d - 1), gen_bool(e, d - 1), gen_bool(e, d - 1))


def gen_list(e, et, d):
    r = e.r
    t = ('list', et)
    if d <= 0:
        return var_or(e, t, lambda: '[%s]' % ', '.join(gen(e, et, 0) for _ in range(r.randint(0, 3))))
    c = r.randrange(16)
    if c < 2:
        return var_or(e, t, lambda: '[%s]' % ', '.join(gen(e, et, d - 1) for _ in range(r.randint(0, 4))))
    if c < 5:
        return '[%s%s]' % (', '.join(gen(e, et, d - 1) for _ in range(r.randint(0, 4))), r.choice(['', '']))
    if c == 5:
        return '(%s + %s)' % (gen_list(e, et, d - 1), gen_list(e, et, d - 1))
    if c == 6 and et in ('num', 'str'):
        src = r.choice(['num', 'str'])
        body = lambda_body(e, {'v': src}, et, d - 1)
        return 'map(%s, v => %s)' % (gen_list(e, src, d - 1), body)
    if c == 7:
        if et in ('num', 'str') and r.random() < 0.3:
            vt = r.choice(['num', 'str'])
            return 'map(%s, (k, v) => %s)' % (gen_dict(e, vt, d - 1), lambda_body(e, {'k': 'str', 'v': vt}, et, d - 1))
        body = lambda_body(e, {'v': et}, 'bool', d - 1)
        return 'filter(%s, v => %s)' % (gen_list(e, et, d - 1), body)
    if c == 8 and et in ('num', 'str'):
        x = r.randrange(4)
        if x == 0:
            return 'sorted(%s)' % gen_list(e, et, d - 1)
        if x == 1:
            return 'sorted(%s, None, %s)' % (gen_list(e, et, d - 1), r.choice(['True', 'False']))
        key = 'v => (0 - v)' if et == 'num' else 'v => len(v)'
        return 'sorted(%s, %s%s)' % (gen_list(e, et, d - 1), key, r.choice(['', ', True']))
    if c == 9:
        return 'reversed(%s)' % gen_list(e, et, d - 1)
    if c == 10:
        return '%s[%s]' % (gen_list(e, et, d - 1), r.choice(['1:', ':2', '::2', '::-1', '1:3', ':-1', '-2:', '0.5:2.9', ':', '1::', ':2:', '::1', ':0', '0:', '2:0', '0:0', ':0.4', '::0', ':len([])', '1:(1 - 1)', '0:1', '-1:0']))
    if c == 11 and et == 'str':
        return r.choice(['keys(%s)' % gen_dict(e, 'num', d - 1), 'split(%s, %s)' % (gen_str(e, d - 1), r.choice(['","', '" "', '"a"'])), 'split(%s)' % gen_str(e, d - 1),
                         'split(%s, %s, %s)' % (gen_str(e, d - 1), r.choice(['","', '" "', '"l"']), r.choice(['1', '2', '0', '-1', '1.0'])),
                         'match_all(%s, %s)' % (gen_str(e, d - 1), r.choice(['"[a-z]"', '"l+"', '"\\\\d+"']))])
    if c == 12:
        return 'values(%s)' % gen_dict(e, et, d - 1)
    if c == 13:
        if et == 'num' and r.random() < 0.5:
            return 'hm(v => %s, %s)' % (lambda_body(e, {'v': 'num'}, 'num', d - 1), r.choice(['0', '1', '2', '3']))
        return 'list(%s)' % ', '.join(gen(e, et, d - 1) for _ in range(r.randint(0, 3)))
    if c == 14:
        return '%s | %s' % (gen_list(e, et, d - 1), r.choice(['reversed', 'sorted' if et in ('num', 'str') else 'reversed', 'filter(v => True)']))
    return '(%s if %s else %s)' % (gen_list(e, et, d - 1), gen_bool(e, d - 1), gen_list(e, et, d - 1))


def gen_dict(e, vt, d):
    r = e.r
    t = ('dict', vt)
    if d <= 0:
        return var_or(e, t, lambda: '{%s}' % ', '.join('%s: %s' % (k, gen(e, vt, 0)) for k in r.sample(KEYS, r.randint(1, 3))) if r.random() < 0.8 else '{}')
    c = r.randrange(8)
    if c < 2:
        return var_or(e, t, lambda: '{%s}' % ', '.join('%s: %s' % (k, gen(e, vt, d - 1)) for k in r.sample(KEYS, r.randint(1, 3))))
    if c < 5:
        ks = [r.choice(KEYS + ['(1 + 1)', '"a" + "b"', 'None']) for _ in range(r.randint(0, 4))]
        if not ks:
            return '{}'
        return '{%s%s}' % (', '.join('%s: %s' % (k, gen(e, vt, d - 1)) for k in ks), r.choice(['', ',']))
    if c == 5 and vt in ('num', 'str'):
        return r.choice(['sorted(%s)', 'dict(%s)', 'sorted(%s, (k, v) => v)', 'sorted(%s, None, True)', 'sorted(%s, (k, v) => v, True)', 'sorted(%s, (k, v) => k)',
                         'sorted(%s, (k, v) => 0 - len(k), True)', 'sorted(%s, (k, v) => k + str(v))', 'sorted(%s, (k, v) => str(v) + k, False)']) % gen_dict(e, vt, d - 1)
    if c == 6:
        return '(%s if %s else %s)' % (gen_dict(e, vt, d - 1), gen_bool(e, d - 1), gen_dict(e, vt, d - 1))
    return 'dict(%s)' % gen_dict(e, vt, d - 1)


def lambda_body(e, params, rt, d):
    e.params.append(dict(params))
    try:
        return gen(e, rt, d)
    finally:
        e.params.pop()


def call_lambda(e, f, d):
    ty = e.vars[f]
    args = [gen(e, a, d - 1) for a in ty[1]]
    r = e.r
    if e.want_fault and e.fault is None and args and r.random() < 0.5:
        e.fault = 'too-few-lambda-arguments'
        args = args[:-1]
    elif r.random() < 0.15:
        args.append(gen(e, 'any', 0))          # extra arguments are ignored
    form = r.randrange(3)
    e.used.add(f)
    if form == 0 or not args:
        return '%s(%s)' % (f, ', '.join(args))
    if form == 1:
        return '(%s).%s(%s)' % (args[0], f, ', '.join(args[1:]))
    return ('(%s) | %s(%s)' % (args[0], f, ', '.join(args[1:]))) if len(args) > 1 else '(%s) | %s' % (args[0], f)


# ----------------------------------------------------------------------------- statements
def gen_statement(e, d):
    r = e.r
    c = r.randrange(24)
    if c < 6 or not e.vars:
        t = r.choice(['num', 'num', 'str', 'bool', 'none', ('list', 'num'), ('list', 'str'), ('dict', 'num'), ('dict', 'str'), ('list', ('list', 'num'))])
        n = e.new_name()
        if isinstance(t, tuple) and t[0] == 'list' and r.random() < 0.7:
            k = r.randint(0, 4)
            src = '[%s]' % ', '.join(gen(e, t[1], d - 1) for _ in range(k))
            line = '%s = %s' % (n, src)
            e.vars[n] = t
            e.lens[n] = k
            return line
        if isinstance(t, tuple) and t[0] == 'dict' and r.random() < 0.7:
            ks = r.sample(KEYS[:4], r.randint(0, 3))
            src = '{%s}' % ', '.join('%s: %s' % (k, gen(e, t[1], d - 1)) for k in ks)
            line = '%s = %s' % (n, src)
            e.vars[n] = t
            e.keys[n] = list(ks)
            return line
        src = gen(e, t, d)
        e.vars[n] = t
        e.lens.pop(n, None)
        e.keys.pop(n, None)
        return '%s = %s' % (n, src)
    if c < 8:
        # lambda definition
        n = 'f%d' % (len(e.vars) + 1)
        pt = [r.choice(['num', 'str', 'num', 'none']) for _ in range(r.randint(1, 2))]
        rt = r.choice(['num', 'str', 'bool', ('list', 'num')])
        pn = r.sample(['a', 'b', 'v', 'n', 'len', 'x', 'имя'], len(pt))
        body = lambda_body(e, dict(zip(pn, pt)), rt, d)
        e.vars[n] = ('fn', tuple(pt), rt)
        if len(pn) == 1:
            # never "(x) => e": derivable but rejected by the implementation (known finding of C06)
            return '%s = %s => %s' % (n, pn[0], body)
        return '%s = (%s) => %s' % (n, ', '.join(pn), body)
    if c < 10:
        vs = e.of_type('num')
        if vs:
            n = r.choice(vs)
            if n in e.vars:
                op = r.choice(['+=', '-=', '*=', '/='])
                rhs = gen_num(e, d - 1) if op != '/=' else r.choice(['2', '4', '0.5'])
                return '%s %s %s' % (n, op, rhs)
    if c == 10:
        vs = [n for n in e.of_type('str') if n in e.vars]
        if vs:
            return '%s += %s' % (r.choice(vs), gen(e, r.choice(['str', 'num', 'bool']), d - 1))
    if c == 11:
        vs = [n for n in e.vars if isinstance(e.vars[n], tuple) and e.vars[n][0] == 'list' and not e.params]
        if vs:
            n = r.choice(vs)
            k = r.randint(0, 2)
            if n in e.lens:
                e.lens[n] += k
            return '%s += [%s]' % (n, ', '.join(gen(e, e.vars[n][1], d - 1) for _ in range(k)))
    if c in (12, 13):
        vs = [n for n in e.vars if isinstance(e.vars[n], tuple) and e.vars[n][0] == 'list' and e.lens.get(n, 0) > 0]
        if vs:
            n = r.choice(vs)
            idx = index_text(r, e.lens[n])
            et = e.vars[n][1]
            if c == 12:
                return '%s[%s] = %s' % (n, idx, gen(e, et, d - 1))
            if et == 'num':
                return '%s[%s] %s %s' % (n, idx, r.choice(['+=', '-=', '*=', '/=']), gen_num(e, d - 1))
            if et == 'str':
                return '%s[%s] += %s' % (n, idx, gen_str(e, d - 1))
    if c in (14, 15):
        vs = [n for n in e.vars if isinstance(e.vars[n], tuple) and e.vars[n][0] == 'dict']
        if vs:
            n = r.choice(vs)
            vt = e.vars[n][1]
            if c == 14 or not e.keys.get(n):
                k = r.choice(KEYS)
                e.keys.setdefault(n, [])
                if k not in e.keys[n]:
                    e.keys[n].append(k)
                return '%s[%s] = %s' % (n, k, gen(e, vt, d - 1))
            k = r.choice(e.keys[n])
            if vt == 'num':
                return '%s[%s] %s %s' % (n, k, r.choice(['+=', '-=', '*=', '/=']), gen_num(e, d - 1))
            return '%s[%s] += %s' % (n, k, gen_str(e, d - 1)) if vt == 'str' else '%s[%s] = %s' % (n, k, gen(e, vt, d - 1))
    if c == 16:
        vs = [n for n in e.vars if isinstance(e.vars[n], tuple) and e.vars[n][0] == 'list' and n in e.lens]
        if vs:
            n = r.choice(vs)
            x = r.randrange(6)
            et = e.vars[n][1]
            if x == 5:
                e.lens.pop(n, None)          # whether the element is there is not tracked: the list is not addressed by index afterwards
                return r.choice(['remove(%s, %s)', '%s.remove(%s)', '%s | remove(%s)']) % (n, gen(e, et, 0))
            if x == 0:
                e.lens[n] += 1
                return r.choice(['push(%s, %s)', '%s.push(%s)', '%s | push(%s)']) % (n, gen(e, et, d - 1))
            if x == 1 and e.lens[n] > 0:
                e.lens[n] -= 1
                return r.choice(['pop(%s)', '%s.pop()', '%s | pop']) % n
            if x == 2:
                e.lens[n] += 1
                return 'insert(%s, %s, %s)' % (n, r.choice(['0', '1', '-1', '99', '1.5']), gen(e, et, d - 1))
            if x == 3 and e.lens[n] > 0:
                i = r.randrange(e.lens[n])
                e.lens[n] -= 1
                return 'del %s[%d]' % (n, i)
            if x == 4 and e.lens[n] > 0:
                i = r.randrange(e.lens[n])
                e.lens[n] -= 1
                return 'pop(%s, %d)' % (n, i)
    if c == 17:
        vs = [n for n in e.vars if isinstance(e.vars[n], tuple) and e.vars[n][0] == 'dict' and e.keys.get(n)]
        if vs:
            n = r.choice(vs)
            k = r.choice(e.keys[n])
            e.keys[n].remove(k)
            if r.random() < 0.3 and k.startswith('"'):
                return 'remove(%s, %s)' % (n, k)          # (remove takes the key as it is stored: string keys only)
            return 'del %s[%s]' % (n, k)
    if c in (19, 20, 21):
        # aliasing probes: store a container variable somewhere, then mutate one side; names afterwards reveal sharing
        ys = [n for n in e.vars if e.vars[n] == ('list', 'num') and n in e.lens and not n.startswith('%')]
        if ys:
            y = r.choice(ys)
            x = e.new_name()
            form = r.randrange(10)
            lines = []
            if form >= 7:
                # the pairs handed out by enumerate()/items() are host tuples holding the very container: binding or storing one must copy through it
                if form == 7:
                    lines.append('%s = enumerate([%s, %s])[1]' % (x, y, y))
                    acc = '%s[1]' % x
                elif form == 8:
                    lines.append('%s = items({"k": %s})[0]' % (x, y))
                    acc = '%s[1]' % x
                else:
                    lines.append('%s = [0]' % x)
                    lines.append('%s[0] = enumerate([%s])[0]' % (x, y))
                    acc = '%s[0][1]' % x
                lines.append(r.choice(['push(%s, %s)' % (acc, gen_num(e, 0)), 'insert(%s, 0, %s)' % (acc, gen_num(e, 0)), '%s += [%s]' % (y, gen_num(e, 0))]))
                if lines[-1].startswith(y):
                    e.lens[y] += 1
                return '\n'.join(lines)
            if form == 0:
                lines.append('%s = %s' % (x, y))
                e.vars[x] = ('list', 'num'); e.lens[x] = e.lens[y]
                target = r.choice([x, y])
            elif form == 1:
                lines.append('%s = [%s, %s]' % (x, y, y))
                e.vars[x] = ('list', ('list', 'num')); e.lens[x] = 2
                target = y
            elif form == 2:
                lines.append('%s = {"in": %s}' % (x, y))
                e.vars[x] = ('dict', ('list', 'num')); e.keys[x] = ['"in"']
                target = y
            elif form == 3:
                lines.append('%s = {}' % x)
                lines.append('%s["k"] = %s' % (x, y))
                e.vars[x] = ('dict', ('list', 'num')); e.keys[x] = ['"k"']
                target = y
            elif form == 4:
                lines.append('%s = [[0]]' % x)
                lines.append('%s[0] = [%s]' % (x, y))
                e.vars[x] = ('list', ('list', ('list', 'num'))); e.lens[x] = 1
                target = y
            elif form == 5:
                lines.append('%s = []' % x)
                lines.append('%s += [%s]' % (x, y))
                e.vars[x] = ('list', ('list', 'num')); e.lens[x] = 1
                target = y
            else:
                lines.append('%s = {"k": []}' % x)
                lines.append('%s["k"] += [%s, [%s]]' % (x, y, gen_num(e, 0)))
                e.vars[x] = ('dict', ('list', ('list', 'num'))); e.keys[x] = ['"k"']
                target = y
            m = r.randrange(4)
            if m == 0:
                lines.append('push(%s, %s)' % (target, gen_num(e, 0)))
                e.lens[target] += 1
            elif m == 1 and e.lens.get(target, 0) > 0:
                lines.append('%s[0] = %s' % (target, gen_num(e, 0)))
            elif m == 2 and e.lens.get(target, 0) > 0:
                lines.append('pop(%s)' % target)
                e.lens[target] -= 1
            else:
                lines.append('insert(%s, 0, %s)' % (target, gen_num(e, 0)))
                e.lens[target] += 1
            return '\n'.join(lines)
    if c == 18 and e.vars:
        # re-assignment of an existing variable with a value of its type
        n = r.choice([x for x in e.vars if e.vars[x] != 'xnum' and not (isinstance(e.vars[x], tuple) and e.vars[x][0] == 'fn')] or [None])
        if n:
            e.lens.pop(n, None)
            e.keys.pop(n, None)
            return '%s = %s' % (n, gen(e, e.vars[n], d))
    return gen(e, r.choice(['num', 'str', 'bool', ('list', 'num'), ('dict', 'num'), 'any']), d)


FAULTS = ['missing-key', 'index-out-of-range', 'pop-empty', 'undefined-name', 'undefined-function', 'too-few-lambda-arguments', 'compound-undefined', 'compound-missing-key', 'type-error', 'type-error',
          'refused-container-type']


def fault_statement(e, kind):
    r = e.r
    if kind == 'missing-key':
        return r.choice(['{"a": 1}["zz"]', 'tmp_d = {"a": 1}\ntmp_d["nope"]', '[1, 2][5]["k"] if False else {"k": 1}["q"]'])
    if kind == 'index-out-of-range':
        return r.choice(['[1, 2, 3][3]', '[1, 2, 3][-4]', '"abc"[9]', '[][0]', '[1][1.5]'])
    if kind == 'pop-empty':
        return r.choice(['pop([])', '[] | pop', 'tmp_l = [1]\npop(tmp_l)\npop(tmp_l)'])
    if kind == 'undefined-name':
        return r.choice(['nope_1 + 1', '[1, nope_2]', 'x_undefined', '1 if nope_3 else 2', 'len(nope_4)'])
    if kind == 'undefined-function':
        return r.choice(['nofn(1)', '1 | nofn', '"a".nofn()', 'nofn()'])
    if kind == 'compound-undefined':
        return r.choice(['nope_5 += 1', 'nope_6 *= 2'])
    if kind == 'type-error':
        # exactly one ill-typed operation: Python semantics make it an error (no coercion except string-on-the-left +)
        return r.choice(['1 + "a"', 'h_num + h_str', '[1] + 1', '"a" - 1', 'None + 1', '{"a": 1} + {}', '-"a"', '1 < "a"', 'len(5)', '"a" * 2', '[1] * 2', '2 * [1]', '2 ** "x"',
                         'upper(5)', 'h_list + h_str', '[1, "a"] | sorted', 'sum(["a", "b"])', '1 in 5', 'h_num[0]', 'h_list["a"]', 'None.upper()', 'x_t = 5\nx_t += "a"',
                         'x_u = [1]\nx_u *= 2', 'x_v = "ab"\nx_v *= 2', 'h_dict["a"] += "s"', 'h_list[0] *= [1]', 'not_callable = 5\nnot_callable(1)', 'min(1, "a")', 'join([1, 2], 5)',
                         'round("a")', 'abs("x")', 'h_str[h_str]', 'True + "a"', '"a" + 1 + 1 - 1'])
    if kind == 'refused-container-type':
        # map / filter / reduce refuse what they cannot walk with the language's own error (not with whatever Python raises further down)
        return r.choice(['map(5, v => v)', 'map(None, v => v)', 'filter("abc", v => True)', 'filter({"a": 1}, v => True)', 'reduce(5, (a, b) => a)', 'map(True, v => v)',
                         'h_num | map(v => v)', 'filter(7, v => v)', 'reduce(None, (a, b) => b)', 'filter(None, v => v)'])
    if kind == 'compound-missing-key':
        return r.choice(['tmp_d2 = {"a": 1}\ntmp_d2["b"] += 1', 'tmp_l2 = [1]\ntmp_l2[3] -= 1'])
    return None


def _hm(f, n):
    return [f(D(i)) for i in range(int(n))]


def _try(f, *a):
    try:
        return f(*a)
    except Exception:
        return 'caught'


def host_names(r):
    """host bindings: plain data (ints alongside decimals) and two host callbacks - fresh data objects on every call"""
    return {
        'hm': _hm, 'try_': _try,
        'h_num': r.choice([5, D('2.5'), 0, -3, D('100')]), 'h_int': 7, 'h_str': r.choice(['host', 'Hello', '']), 'h_list': [D(1), D(2), 3], 'h_strs': ['b', 'a', 'c'],
        'h_dict': {'a': D(1), 'b': 2}, 'h_bool': True, 'h_none': None, 'h_nested': [[D(1)], [D(2), D(3)]],
        # numbers of every host-suppliable kind and of unusual magnitude / representation
        'h_float': r.choice([2.5, -0.0, 1e300, 0.1, 3.0]), 'h_big': r.choice([10 ** 30, -(10 ** 18), 2 ** 64]), 'h_t': r.choice([True, False]),
        'h_dexp': r.choice([D('1E+3'), D('-0'), D('1.50'), D('0E-7'), D('123456789012345678901234567.5'), D('1E-30')]),
        'h_tuple': (D(1), 'a'), 'h_long': [D(i) for i in range(300)], 'h_ustr': r.choice(['\u0301a\u0301', 'a\U0001f600b', '\u202eabc', 'A\u00df\u0130', '\ud800', 'x' * 5000]),
    }


HOST_TYPES = {'h_float': 'xnum', 'h_big': 'num', 'h_t': 'num', 'h_dexp': 'num', 'h_long': ('list', 'num'), 'h_ustr': 'str', 'h_none': 'none', 'h_num': 'num', 'h_int': 'num', 'h_str': 'str', 'h_list': ('list', 'num'), 'h_strs': ('list', 'str'), 'h_dict': ('dict', 'num'), 'h_bool': 'bool',
              'h_nested': ('list', ('list', 'num'))}


def gen_program(r, max_lines=8, depth=4, fault_rate=0.15):
    if r.random() < 0.1:
        depth += 3            # now and then much deeper expressions than usual
    e = Env(r)
    e.vars.update(HOST_TYPES)
    e.lens.update({'h_list': 3, 'h_strs': 3, 'h_nested': 2, 'h_long': 300})
    e.keys.update({'h_dict': ['"a"', '"b"']})
    e.want_fault = r.random() < fault_rate
    fault_kind = r.choice(FAULTS) if e.want_fault else None
    n = r.randint(1, max_lines)
    fault_at = r.randrange(n) if e.want_fault else -1
    lines = []
    for i in range(n):
        if i == fault_at and fault_kind != 'too-few-lambda-arguments':
            fs = fault_statement(e, fault_kind)
            if fs:
                lines.append(fs)
                e.fault = fault_kind
                continue
        lines.append(gen_statement(e, r.randint(1, depth)))
    return lines, e


def gen_ast_body(r, depth=3):
    """a multi-statement lambda body over parameters p0, p1 (numbers): locals vanish with the call"""
    e = Env(r)
    e.vars.update(HOST_TYPES)
    e.lens.update({'h_list': 3, 'h_strs': 3, 'h_nested': 2})
    e.keys.update({'h_dict': ['"a"', '"b"']})
    e.vars.update({'p0': 'num', 'p1': 'num'})
    lines = [gen_statement(e, r.randint(1, depth)) for _ in range(r.randint(1, 4))]
    lines.append(gen(e, r.choice(['num', 'str', ('list', 'num')]), 2))
    return '\n'.join(lines)
