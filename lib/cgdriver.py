"""Check-side driver of the coverage-guided fuzzing subprocess (lib/cgfuzz.py): installs atheris from the offline wheelhouse once per run (beside the
sandbox copy), runs one fuzzing process, returns its counters and the inputs on which its oracle fired.  The check judges those inputs again itself."""
import json
import os
import subprocess
import sys
import time


def deps(ctx):
    """-> directory holding atheris, or None if it cannot be installed"""
    d = os.path.join(ctx.sandbox_dir, '_deps')
    ok, failed = os.path.join(d, '.ok'), os.path.join(d, '.failed')
    try:
        os.mkdir(d)
    except FileExistsError:
        for _ in range(240):
            if os.path.exists(ok):
                return d
            if os.path.exists(failed):
                return None
            time.sleep(0.5)
        return None
    try:
        pr = subprocess.run([sys.executable, '-m', 'pip', 'install', '-q', '--no-index', '--find-links', '/opt/veriftools/wheels', '--target', d, 'atheris'],
                            capture_output=True, timeout=100, env=dict(os.environ, PIP_NO_INDEX='1'))
        good = pr.returncode == 0 and os.path.isdir(os.path.join(d, 'atheris'))
    except Exception:
        good = False
    open(ok if good else failed, 'w').close()
    return d if good else None


def decode(data):
    try:
        return data.decode('utf-8', 'surrogatepass')
    except UnicodeDecodeError:
        return data.decode('latin-1')


def run(ctx, mode, seed, seconds, seed_texts):
    """-> (stats dict, [texts on which the oracle fired], n slow/large inputs) or None when atheris is unavailable"""
    d = deps(ctx)
    if d is None:
        ctx.count('coverage_guided_fuzzing_unavailable(atheris could not be installed from the wheelhouse)')
        return None
    work = os.path.join(ctx.sandbox_dir, '_cgf', '%s-%d-%d' % (mode, ctx.shard, seed))
    os.makedirs(os.path.join(work, 'corpus'), exist_ok=True)
    for i, t in enumerate(seed_texts):
        with open(os.path.join(work, 'corpus', 'seed%d' % i), 'wb') as f:
            f.write(t.encode('utf-8', 'surrogatepass'))
    verif = os.path.dirname(os.path.dirname(os.path.abspath(__file__)))
    try:
        subprocess.run([sys.executable, '-m', 'lib.cgfuzz', d, ctx.sandbox_dir, work, str(seconds), str(seed % 10 ** 6 + 1), mode], cwd=verif, capture_output=True, timeout=seconds + 120,
                       env=dict(os.environ, PYTHONHASHSEED='0'))
    except subprocess.TimeoutExpired:
        ctx.count('coverage_guided_fuzzing_runs_killed_by_the_watchdog')
    try:
        st = json.load(open(os.path.join(work, 'stats.json')))
    except Exception:
        st = {}
    ctx.last_cgf_work = work          # the corpus the run grew (coverage-distinct texts) stays there for the caller
    ctx.count('coverage_guided_fuzzing_runs')
    ctx.count('texts_generated_under_coverage_guidance', st.get('texts', 0))
    try:
        ctx.count('coverage_guided_corpus_units', len(os.listdir(os.path.join(work, 'corpus'))))
    except OSError:
        pass
    fired, slow = [], 0
    adir = os.path.join(work, 'artifacts')
    for name in sorted(os.listdir(adir)) if os.path.isdir(adir) else []:
        if name.startswith(('timeout-', 'oom-', 'slow-unit-')):
            slow += 1
            continue
        fired.append(decode(open(os.path.join(adir, name), 'rb').read()))
    if slow:
        ctx.count('coverage_guided_inputs_slow_or_large(not judged)', slow)
    return st, fired, slow


def corpus_texts(ctx, limit=None):
    """the texts of the corpus grown by the last run (each reached coverage no earlier text had reached)"""
    d = os.path.join(getattr(ctx, 'last_cgf_work', ''), 'corpus')
    out = []
    for name in sorted(os.listdir(d)) if os.path.isdir(d) else []:
        try:
            out.append(decode(open(os.path.join(d, name), 'rb').read()))
        except OSError:
            pass
    if limit is not None and len(out) > limit:
        import random
        out = random.Random(len(out)).sample(out, limit)
    return out
