"""G1 - token-level sentence generator for the published grammar (frozen copy of the productions),
rendering with ground-truth token boundaries, one-token mutations and the exhaustive alphabet."""
import collections.abc
from decimal import Decimal

from lib.reflex import string_value

BINOPS = ['PLUS', 'MINUS', 'TIMES', 'POWER', 'DIVIDE', 'EQ', 'NE', 'GT', 'LT', 'GTE', 'LTE', 'IN', 'AND', 'OR']
RESERVED_UNUSED = ['FOR', 'WHILE', 'ELIF', 'BREAK', 'CONTINUE', 'DEF', 'RAISE']

G = {
    'code': [['line'], ['code', 'NEWLINE', 'line']],
    'line': [['statement']],
    'statement': [
        ['expression'], [], ['NAME', 'ASSIGN', 'expression'], ['NAME', 'SHORT_OP', 'expression'],
        ['DEL', 'expression', 'LBRACKET', 'expression', 'RBRACKET'],
        ['expression', 'LBRACKET', 'expression', 'RBRACKET', 'ASSIGN', 'expression'],
        ['expression', 'LBRACKET', 'expression', 'RBRACKET', 'SHORT_OP', 'expression']],
    'expression': [
        ['NUMBER'], ['STRING'], ['NAME'], ['TRUE'], ['FALSE'], ['NONE'],
        ['NAME', 'LPAREN', 'arglist', 'RPAREN'], ['NAME', 'LPAREN', 'arglist', 'COMMA', 'RPAREN'],
        ['NAME', 'LPAREN', 'RPAREN'],
        ['expression', 'DOT', 'NAME', 'LPAREN', 'arglist', 'RPAREN'],
        ['expression', 'PIPE', 'NAME', 'LPAREN', 'arglist', 'RPAREN'],
        ['expression', 'DOT', 'NAME', 'LPAREN', 'arglist', 'COMMA', 'RPAREN'],
        ['expression', 'PIPE', 'NAME', 'LPAREN', 'arglist', 'COMMA', 'RPAREN'],
        ['expression', 'DOT', 'NAME', 'LPAREN', 'RPAREN'], ['expression', 'PIPE', 'NAME'],
        ['NAME', 'LAMBDA', 'expression'], ['LPAREN', 'arglist_def', 'RPAREN', 'LAMBDA', 'expression'],
        *[['expression', op, 'expression'] for op in BINOPS],
        ['expression', 'NOT', 'IN', 'expression'],
        ['LBRACKET', 'RBRACKET'], ['LBRACKET', 'arglist', 'RBRACKET'], ['LBRACKET', 'arglist', 'COMMA', 'RBRACKET'],
        ['LBRACE', 'RBRACE'], ['LBRACE', 'dict_item', 'RBRACE'], ['LBRACE', 'dict_item', 'COMMA', 'RBRACE'],
        ['expression', 'LBRACKET', 'slice', 'RBRACKET'], ['expression', 'LBRACKET', 'expression', 'RBRACKET'],
        ['expression', 'IF', 'expression', 'ELSE', 'expression'],
        ['MINUS', 'expression'], ['LPAREN', 'expression', 'RPAREN'], ['NOT', 'expression'],
    ],
    'dict_item': [['dict_item', 'COMMA', 'dict_item'], ['expression', 'COLON', 'expression']],
    'slice': [['expression'], ['COLON'], ['expression', 'COLON', 'expression'], ['expression', 'COLON'],
              ['COLON', 'expression'], ['expression', 'COLON', 'COLON'], ['COLON', 'expression', 'COLON'],
              ['COLON', 'COLON', 'expression']],
    'arglist': [['arglist', 'COMMA', 'expression'], ['expression']],
    'arglist_def': [['arglist', 'COMMA', 'NAME'], ['NAME']],
}
PROD_IDS = {}
for _nt, _ps in G.items():
    for _i, _p in enumerate(_ps):
        PROD_IDS[(_nt, _i)] = '%s -> %s' % (_nt, ' '.join(_p) or 'ε')
N_PRODUCTIONS = len(PROD_IDS)

_TERMINAL = {
    'expression': [['NUMBER'], ['NAME'], ['NAME'], ['STRING'], ['TRUE'], ['NONE']],
    'arglist': [['expression']], 'dict_item': [['expression', 'COLON', 'expression']],
    'code': [['line']], 'arglist_def': [['NAME']],
    'slice': [['expression'], ['COLON'], ['expression', 'COLON']],
    'statement': [['expression'], ['NAME', 'ASSIGN', 'expression']],
}


def gen(sym, rnd, depth, used=None):
    """random derivation -> list of token types; `used` collects (nonterminal, production index)"""
    if sym not in G:
        return [sym]
    prods = G[sym]
    if depth <= 0 and sym in _TERMINAL:
        p = rnd.choice(_TERMINAL[sym])
        idx = prods.index(p)
    else:
        idx = rnd.randrange(len(prods))
        p = prods[idx]
    if used is not None:
        used.add((sym, idx))
    out = []
    for s in p:
        out += gen(s, rnd, depth - 1, used)
    return out


TEXT = {'EQ': '==', 'NE': '!=', 'GT': '>', 'LT': '<', 'LTE': '<=', 'GTE': '>=', 'PLUS': '+', 'MINUS': '-',
        'TIMES': '*', 'POWER': '**', 'DIVIDE': '/', 'LPAREN': '(', 'RPAREN': ')', 'LBRACKET': '[',
        'RBRACKET': ']', 'COMMA': ',', 'DOT': '.', 'PIPE': '|', 'ASSIGN': '=', 'LAMBDA': '=>', 'COLON': ':',
        'LBRACE': '{', 'RBRACE': '}', 'AND': 'and', 'OR': 'or', 'IN': 'in', 'NOT': 'not', 'IF': 'if',
        'ELSE': 'else', 'TRUE': 'True', 'FALSE': 'False', 'NONE': 'None', 'DEL': 'del', 'FOR': 'for',
        'WHILE': 'while', 'BREAK': 'break', 'CONTINUE': 'continue', 'DEF': 'def', 'RAISE': 'raise',
        'ELIF': 'elif'}
NAMES = ['a', 'b', 'c', 'f', 'g', 'x', 'y', 'k2', '_t', 'имя', '%user name%', '%a.b%', 'len', 'map',
         'index', 'int', 'in_stock', 'notx', 'order', 'android', 'iffy', 'elsewhere', 'delta', 'Trueish', 'None_', 'forx', 'r', 'rr',
         # names that Unicode normalisation (NFC / NFKC) would rewrite, and a %...% name holding a form feed
         '\u2126m', '\u212bx', '\uff58', '\u00b5', 'x\u00b2' if False else '\ufb01t', '%a\x0cb%']
# the function table of the pinned tree; a tree under test whose table has further entries gets their names into the identifier pool (a builtin that the grammar
# or the evaluator special-cases by name is only met by programs that spell that name)
PINNED_TABLE = frozenset(['__delitem__', '__getitem__', '__setitem__', '__setitem_with_op__', 'abs', 'ceil', 'dict', 'endswith', 'enumerate', 'filter', 'float', 'floor', 'get', 'index_of',
                          'insert', 'int', 'items', 'join', 'keys', 'len', 'list', 'lower', 'map', 'match', 'match_all', 'match_groups', 'max', 'min', 'pop', 'pretty', 'push', 'rand', 'reduce',
                          'remove', 'replace', 'reversed', 'round', 'shuffle', 'sorted', 'split', 'startswith', 'str', 'strip', 'sum', 'upper', 'values'])


_TABLE_NAMES = []


def table_names():
    """names a program of the tree under test can call without host help: the keys of its function table, plus whatever else an evaluation with an empty
    names mapping finds bound in its scope stack (builtins that are bound per evaluation and do not sit in FUNCTIONS)"""
    if _TABLE_NAMES:
        return list(_TABLE_NAMES)
    names = set()
    try:
        from smartquery import functions, scoped_dict, SqParser
        names |= set(functions.FUNCTIONS)
        seen = []
        orig = scoped_dict.ScopedDict.__init__

        def init(self, *a, **k):
            orig(self, *a, **k)
            seen.append(self)
        scoped_dict.ScopedDict.__init__ = init
        try:
            SqParser().eval('1', {})
        finally:
            scoped_dict.ScopedDict.__init__ = orig
        for sd in seen:
            for sc in getattr(sd, 'scopes', []):
                names |= set(k for k in sc if isinstance(k, str))
    except Exception:
        pass
    _TABLE_NAMES.extend(sorted(names))
    return list(_TABLE_NAMES)


def new_table_names():
    return [n for n in table_names() if n not in PINNED_TABLE]


def use_table_names(table_names):
    """called by the checks' setup with the names of the function table of the tree under test: names the pinned table does not have join NAMES (three times
    each, so that they are drawn about as often as the rest of the pool together with them grows); -> the new names"""
    new = sorted(n for n in table_names if n not in PINNED_TABLE and n not in NAMES)
    for n in new:
        NAMES.extend([n, n, n])
    return new


NUMBERS = ['1', '2.5', '0', '007', '10.50', '3', '12345678901234567890123456789.5']
STRINGS = ['"s"', "'q'", 'r"\\d+"', '"a\\"b"', '""', "'x y'", '"%z%"', '"# no comment"', '"#fff"', '"#000"', "'n#1'", "'n#2'",
           # literals spelled like keyword constants / numbers, and literals holding the characters str.splitlines() treats as line boundaries
           '"True"', "'None'", '"False"', "'and'", '"12"', '"a\u2028b"', "'x\x0cy'", '"p\x85q"', '"u\x1cv\x0bw"', "'\u2029'"]
SHORTS = ['+=', '-=', '*=', '/=']
NEWLINES = [';', '\n', '\r\n']


class Cyc:
    """tiny deterministic chooser so that a case can be (types, seed)"""

    def __init__(self, seed):
        self.s = (seed * 2654435761 + 12345) & 0x7fffffff

    def _next(self):
        self.s = (self.s * 1103515245 + 12345) & 0x7fffffff
        return self.s >> 8

    def choice(self, seq):
        return seq[self._next() % len(seq)]

    def random(self):
        return (self._next() % 100003) / 100003.0

    def randrange(self, n):
        return self._next() % n


def tok(typ, rnd, simple=False, newline=None, pools=None):
    """-> ((type, value), source text)"""
    if pools and typ in pools:
        v = rnd.choice(pools[typ])
        if typ == 'NUMBER':
            return (typ, Decimal(v)), v
        if typ == 'STRING':
            return (typ, string_value(v)), v
        return (typ, v), v
    if typ == 'NAME':
        v = rnd.choice(NAMES[:4] if simple else NAMES)
        return (typ, v), v
    if typ == 'NUMBER':
        v = rnd.choice(NUMBERS[:2] if simple else NUMBERS)
        return (typ, Decimal(v)), v
    if typ == 'STRING':
        v = STRINGS[0] if simple else rnd.choice(STRINGS)
        return (typ, string_value(v)), v
    if typ == 'SHORT_OP':
        v = rnd.choice(SHORTS[:2] if simple else SHORTS)
        return (typ, v), v
    if typ == 'NEWLINE':
        v = newline or (';' if simple else rnd.choice(NEWLINES))
        return (typ, v), v
    return (typ, TEXT[typ]), TEXT[typ]


def render(types, rnd, simple=False, newline=None, pools=None):
    """-> (token list [(type, value)], text with single blanks between tokens)"""
    pairs, depth = [], 0
    for t in types:
        if t in ('LPAREN', 'LBRACKET', 'LBRACE'):
            depth += 1
        elif t in ('RPAREN', 'RBRACKET', 'RBRACE'):
            depth -= 1
        # a line break is a token only at bracket depth 0: elsewhere the NEWLINE token must be ';'
        pairs.append(tok(t, rnd, simple, ';' if (t == 'NEWLINE' and depth != 0) else newline, pools))
    return [p[0] for p in pairs], ' '.join(p[1] for p in pairs)


# alphabet for exhaustive enumeration (one representative per class that the grammar distinguishes,
# plus every operator with its own precedence level / associativity)
ALPHA = ['NAME', 'NUMBER', 'STRING', 'EQ', 'LT', 'PLUS', 'MINUS', 'TIMES', 'POWER', 'DIVIDE', 'LPAREN', 'RPAREN',
         'LBRACKET', 'RBRACKET', 'COMMA', 'DOT', 'PIPE', 'ASSIGN', 'SHORT_OP', 'LAMBDA', 'COLON', 'LBRACE',
         'RBRACE', 'NEWLINE', 'AND', 'OR', 'IN', 'NOT', 'IF', 'ELSE', 'TRUE', 'NONE', 'DEL', 'FOR']
ALPHA_FULL = ALPHA + ['NE', 'GT', 'GTE', 'LTE', 'FALSE', 'WHILE', 'ELIF', 'BREAK', 'CONTINUE', 'DEF', 'RAISE']
# reduced alphabet for length-5/6 enumeration: class representatives
ALPHA_SMALL = ['NAME', 'NUMBER', 'LT', 'PLUS', 'MINUS', 'POWER', 'LPAREN', 'RPAREN', 'LBRACKET', 'RBRACKET',
               'COMMA', 'DOT', 'PIPE', 'ASSIGN', 'LAMBDA', 'COLON', 'LBRACE', 'RBRACE', 'NEWLINE', 'AND',
               'IN', 'NOT', 'IF', 'ELSE', 'DEL']


def mutate(types, rnd, alphabet=None):
    alphabet = alphabet or ALPHA_FULL
    m = list(types)
    r = rnd.random()
    if not m or r < 0.34:
        m.insert(rnd.randrange(len(m) + 1), rnd.choice(alphabet))
    elif r < 0.67:
        del m[rnd.randrange(len(m))]
    else:
        m[rnd.randrange(len(m))] = rnd.choice(alphabet)
    return m


OPERATOR_TOKENS = BINOPS + ['NOT', 'IF', 'ELSE', 'DOT', 'PIPE', 'LBRACKET', 'LAMBDA']


def operator_pairs(types):
    """ordered pairs of successive operator tokens (ignoring what stands between them)"""
    ops = [t for t in types if t in OPERATOR_TOKENS]
    return set(zip(ops, ops[1:]))


def render_layout(types, rnd, bracket_newlines=0.25, extra_blanks=0.2, comments=0.0, newline=None, simple=False, pools=None):
    """Rendering with layout noise that the grammar declares insignificant.  Tokens stay separated by at
    least one blank (or a line break where that is not a token), so boundaries remain ground truth.
    -> (token list, text, spans[(start, end)] per token)"""
    parts, toks, spans = [], [], []
    depth, pos = 0, 0
    for i, t in enumerate(types):
        if t in ('LPAREN', 'LBRACKET', 'LBRACE'):
            depth_after = depth + 1
        elif t in ('RPAREN', 'RBRACKET', 'RBRACE'):
            depth_after = depth - 1
        else:
            depth_after = depth
        if i:
            gap = ' '
            r = rnd.random()
            if depth > 0 and r < bracket_newlines:
                gap = rnd.choice(['\n', ' \n ', '\r\n', '\n\n\t', ' \r\n\r\n '])
                if comments and rnd.random() < comments:
                    gap = ' # c, ) ] ; \x0c \u2028 \'' + gap
            elif r < bracket_newlines + extra_blanks:
                gap = rnd.choice(['  ', '\t', ' \t ', '   '])
            parts.append(gap)
            pos += len(gap)
        nl = ';' if (t == 'NEWLINE' and (depth != 0)) else newline
        tk, s = tok(t, rnd, simple, nl, pools)
        if t == 'NEWLINE' and comments and s != ';' and rnd.random() < comments:
            c = '# note ; ( \x0b \x85 "'
            parts.append(c + ' ')
            pos += len(c) + 1
        toks.append(tk)
        parts.append(s)
        spans.append((pos, pos + len(s)))
        pos += len(s)
        depth = depth_after
    return toks, ''.join(parts), spans


KEPT_ALIVE = []          # suspended list_names generators that stay referenced (their cleanup code has not run)


class ToggleCache(dict):
    """a host parse cache whose store can fail (a bounded cache that refuses, a backing store that is down): armed by `fail_next`, it raises once"""
    fail_next = False

    def __setitem__(self, k, v):
        if self.fail_next:
            self.fail_next = False
            raise MemoryError('cache store refused')
        dict.__setitem__(self, k, v)


class StripKeyCache(collections.abc.MutableMapping):
    """a host parse cache that normalises its keys (surrounding blank space is insignificant for a tree, which carries no positions)"""

    def __init__(self):
        self.d = {}

    def __getitem__(self, k):
        return self.d[k.strip()]

    def __setitem__(self, k, v):
        self.d[k.strip()] = v

    def __delitem__(self, k):
        del self.d[k.strip()]

    def __iter__(self):
        return iter(self.d)

    def __len__(self):
        return len(self.d)


def earlier_call(P, r):
    """one arbitrary earlier call on the same parser: failed parses at bracket depth or after complete lines, abandoned / suspended-and-kept /
    failing list_names, evals that fail or succeed, with a dict, with names=None, with a read-only mapping"""
    k = r.randrange(16)
    try:
        if k == 15:
            # the host's parse cache refuses to store the tree of a valid program (the call fails with the cache's own error)
            if isinstance(getattr(P, 'parse_cache', None), ToggleCache):
                P.parse_cache.fail_next = True
            try:
                P.eval('zq1 = 5\nzq2 = zq1 + nope_zq%d\nzq3 = [zq2]' % r.randrange(10 ** 6), {})
            finally:
                if isinstance(getattr(P, 'parse_cache', None), ToggleCache):
                    P.parse_cache.fail_next = False
        elif k == 12:
            # arithmetic that fails midway (invalid operation, overflow, division by zero, a refused quantize) or raises decimal signals
            P.eval(r.choice(['(0 - 8) ** 0.5', '10 ** 999999999', '0 ** (0 - 1)', '(0 - 2.5) ** 1.5', 'round(1.5, 200)', '10 ** 999999 * 10 ** 999999', '1 / 0 + 1',
                             'x = 1\nx /= 0', '10 ** (0 - 2000000)', 'sum([1, "a"])', 'max([])', 'int("x")', 'float("1e999") * 0']), {}, None, 200)
        elif k == 13:
            # a text that fails at parse time, submitted through eval together with a names mapping that binds builtin and ordinary names
            P.eval(r.choice(['1 +', 'x = )', 'a b', 'f(1,\n2', '"unterminated']), {'rand': (lambda *a: 4), 'shuffle': (lambda l: l), 'len': 5, 'x': 'stale', 'max': 1, 'str': 2, 'a': 'stale-a', 'b': 9,
                                                                                   'sum': (lambda v: 'stale'), 'round': 0, 'map': 0, 'index': 3, 'f': (lambda *a: 'stale-f'), 'g': 1, 'y': 'stale-y'})
        elif k == 14:
            # the same broken text twice in a row, then a valid one
            t = r.choice(['x = 1\ny = (', '40 +', 'a = 1\nb = 2 3', '[1, 2', 'q = 1; w = ?'])
            for _ in range(2):
                try:
                    P.eval(t, {})
                except Exception:
                    pass
            P.eval('1')
        elif k == 0:
            P.parse(r.choice(['f(1, ', '[1, [2, ', '{"a": (', '1 + 2)', 'x = ]', '(((', 'a = [1,\n2,\n', 'x = 1\ny = )', 'q = nope_q; z = = 1', 'a = 1\nb = 2\nc d']))
        elif k == 1:
            g = P.list_names(r.choice(['a b c d', 'x + (y * [z', 'f(a, b)', 'total = sum([a, b']))
            next(g, None)                      # abandoned midway (the generator is finalised when it goes out of scope)
        elif k == 2:
            list(P.list_names(r.choice(['total(items', 'x + (y * [z', 'p $ q', 'a[(b', 'msg.', ')) x'])))
        elif k == 3:
            P.eval(r.choice(['1 +', 'nope', 'x = [1,\n2', '1 / 0', 'f = n => f(n)\nf(1)', 'q = 1\n[1][9]']), {}, None, 50)
        elif k == 4:
            P.parse('x = 1\ny = [2,\n3]\n')
        elif k == 5:
            P.eval('[1, 2, 3] | map(v => v * 2)')
        elif k == 6:
            any(n == 'b' for n in P.list_names('f(a, b) + [c'))
        elif k == 7:
            P.eval('rows = [1, 2]\nrows[7]', {'nope': 1, 'u': 2})
        elif k == 8:
            g = P.list_names(r.choice(['a\nb (c\nd', 'f(a,\n b, c', 'x\n\ny z']))
            next(g, None)
            next(g, None)
            KEPT_ALIVE.append(g)               # suspended past a line break / inside a bracket, and still alive
            del KEPT_ALIVE[:-4]
        elif k == 9:
            P.eval('sum = 1 + 2\nlen = 5\nnope = 1\nx = 7\nrand = 7\nshuffle = 7\nmap = 2\nround = 3\nmatch = 4\npush = 5\nsorted = 6\nstr')       # no names mapping at all
        elif k == 10:
            import types
            P.eval('x = 1\nlen = 3\nmax = 4', types.MappingProxyType({'y': 1}))   # a read-only names mapping
        else:
            P.eval('a = 1\nb = )')
    except Exception:
        pass
