"""Monitors attached from outside to the real objects (DESIGN.md §3).  Each counts its own events."""
import collections
import sys


# ------------------------------------------------------------------ M7 token monitor
class TokenMonitor:
    """Wraps parser.lex.token (instance attribute; PLY reads it at the start of each parse and
    list_names reads it on every pull).  Logs every token handed out and the lexer counters seen at
    the first pull after begin()."""

    def __init__(self, parser):
        self.lex = parser.lex
        self.orig = parser.lex.token          # bound method of the real lexer
        self.log = []
        self.first = None
        self.lex_error = None
        self.pulls = 0
        parser.lex.token = self._token

    def begin(self):
        self.log = []
        self.first = None
        self.lex_error = None

    def _token(self):
        lx = self.lex
        if self.first is None:
            self.first = (lx.lexpos, lx.lineno, getattr(lx, 'paren_count', None))
        self.pulls += 1
        try:
            t = self.orig()
        except BaseException as e:
            self.lex_error = e
            raise
        if t is None:
            self.log.append(None)
        else:
            self.log.append((t.type, t.value, t.lexpos, lx.lexpos, t.lineno))
        return t

    def last(self):
        return self.log[-1] if self.log else 'nothing-pulled'

    def uninstall(self):
        try:
            del self.lex.token
        except AttributeError:
            pass


# ------------------------------------------------------------------ M1 node monitor
class NodeMonitor:
    """Wraps `eval` of every concrete subclass of ast_ops.Op.  The base Op.eval is left alone, so the
    monitor's count does not depend on whether a subclass remembers to charge the operation.

    Event hooks (set by a check):  on_enter(node, state)  on_exit(node, state, value)  on_raise(node, state, exc)
    """

    def __init__(self):
        from smartquery import ast_ops
        self.ast_ops = ast_ops
        self.on_enter = None
        self.on_exit = None
        self.on_raise = None
        self.enters = 0
        self.by_kind = collections.Counter()
        self.lambdas = {}     # id(f) -> (f, state at creation)   callables produced by lambda nodes
        self.installed = []
        seen = set()
        stack = list(ast_ops.Op.__subclasses__())
        while stack:
            cls = stack.pop()
            if cls in seen:
                continue
            seen.add(cls)
            stack += cls.__subclasses__()
            if 'eval' in cls.__dict__:
                self._wrap(cls)

    def _wrap(self, cls):
        orig = cls.__dict__['eval']
        mon = self
        kind = cls.__name__

        def eval(self, state, *a, **k):
            mon.enters += 1
            mon.by_kind[kind] += 1
            if mon.on_enter is not None:
                mon.on_enter(self, state)
            try:
                v = orig(self, state, *a, **k)
            except BaseException as e:
                if mon.on_raise is not None:
                    mon.on_raise(self, state, e)
                raise
            if kind == 'LambdaOp' and callable(v):
                mon.lambdas[id(v)] = (v, state)
            if mon.on_exit is not None:
                mon.on_exit(self, state, v)
            return v

        eval.__wrapped__ = orig
        cls.eval = eval
        self.installed.append((cls, orig))

    def reset(self):
        self.enters = 0
        self.by_kind = collections.Counter()

    def uninstall(self):
        for cls, orig in self.installed:
            cls.eval = orig
        self.installed = []


# ------------------------------------------------------------------ M4 scope monitor
class ScopeMonitor:
    """Wraps ScopedDict.push_scope / pop_scope / __setitem__ / __getitem__ (class level)."""

    def __init__(self):
        from smartquery import scoped_dict
        SD = scoped_dict.ScopedDict
        self.SD = SD
        self.orig = {n: SD.__dict__[n] for n in ('push_scope', 'pop_scope', '__setitem__', '__getitem__')}
        self.events = []
        self.record = False
        self.pushes = self.pops = self.sets = self.gets = 0
        mon = self

        def push_scope(self, scope):
            mon.pushes += 1
            r = mon.orig['push_scope'](self, scope)
            if mon.record:
                mon.events.append(('push', id(self), len(self.scopes)))
            return r

        def pop_scope(self):
            mon.pops += 1
            r = mon.orig['pop_scope'](self)
            if mon.record:
                mon.events.append(('pop', id(self), len(self.scopes)))
            return r

        def __setitem__(self, key, value):
            mon.sets += 1
            r = mon.orig['__setitem__'](self, key, value)
            if mon.record:
                where = None
                for d in range(len(self.scopes) - 1, -1, -1):
                    sc = self.scopes[d]
                    try:
                        if dict.__contains__(sc, key) and dict.__getitem__(sc, key) is value:
                            where = d
                            break
                    except TypeError:
                        pass
                mon.events.append(('set', id(self), key, len(self.scopes), where))
            return r

        def __getitem__(self, item):
            mon.gets += 1
            if mon.record:
                # independent resolution: innermost scope that binds the name
                exp = None
                for d in range(len(self.scopes) - 1, -1, -1):
                    try:
                        if item in self.scopes[d]:
                            exp = d
                            break
                    except TypeError:
                        pass
                try:
                    v = mon.orig['__getitem__'](self, item)
                except BaseException:
                    mon.events.append(('get-miss', id(self), item, len(self.scopes), exp))
                    raise
                ok = exp is not None and self.scopes[exp][item] is v
                mon.events.append(('get', id(self), item, len(self.scopes), exp, ok))
                return v
            return mon.orig['__getitem__'](self, item)

        SD.push_scope, SD.pop_scope, SD.__setitem__, SD.__getitem__ = push_scope, pop_scope, __setitem__, __getitem__

    def begin(self):
        self.events = []
        self.record = True

    def end(self):
        self.record = False
        ev, self.events = self.events, []
        return ev

    def uninstall(self):
        for n, f in self.orig.items():
            setattr(self.SD, n, f)


# ------------------------------------------------------------------ M6 audit monitor
FORBIDDEN_AUDIT = ('open', 'io.', 'os.', 'shutil.', 'glob.', 'tempfile.', 'pathlib.', 'subprocess.', 'pty.',
                   'socket.', 'ssl.', 'urllib.', 'http.', 'ftplib.', 'smtplib.', 'import', 'exec', 'compile',
                   'code.__new__', 'function.__new__', 'marshal.', 'pickle.', 'ctypes.', 'cpython.',
                   'sys._getframe', 'sys._current_frames', 'sys.settrace', 'sys.setprofile',
                   'object.__getattr__', 'object.__setattr__', 'object.__delattr__', 'gc.', 'builtins.input',
                   'builtins.breakpoint', 'sys.addaudithook', 'sys.excepthook', 'sys.unraisablehook',
                   'signal.', 'resource.', 'fcntl.', 'mmap.', 'sqlite3.', 'webbrowser.', 'winreg.', 'msvcrt.',
                   'syslog.', 'array.', 'time.sleep')
BENIGN_AUDIT = ('builtins.id',)


class AuditMonitor:
    """sys.addaudithook, installed once per process; records only inside a window.  The harness does no
    I/O (no traceback formatting, no logging, no imports) inside a window."""
    _installed = None

    def __init__(self):
        self.active = False
        self.events = collections.Counter()
        self.forbidden = []
        self.total = 0
        if AuditMonitor._installed is None:
            AuditMonitor._installed = self
            sys.addaudithook(AuditMonitor._hook)
        else:
            raise RuntimeError('one audit monitor per process')

    @staticmethod
    def _hook(event, args):
        self = AuditMonitor._installed
        if self is None or not self.active:
            return
        self.total += 1
        self.events[event] += 1
        if event in BENIGN_AUDIT:
            return
        for f in FORBIDDEN_AUDIT:
            if event == f or (f.endswith('.') and event.startswith(f)):
                if len(self.forbidden) < 50:
                    try:
                        a = repr(args)[:200]
                    except Exception:
                        a = '?'
                    self.forbidden.append((event, a))
                return

    def begin(self):
        self.forbidden = []
        self.active = True

    def end(self):
        self.active = False
        f, self.forbidden = self.forbidden, []
        return f
