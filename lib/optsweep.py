"""Option sweep: API surface of SqParser that the checks do not know about.

The checks construct `SqParser([parse_cache])` and call `eval(expr, names, ast_names, max_ops_evaluated)`.  If the tree under test has grown further
keyword parameters with a boolean default (an opt-in mode: `strict=False`, `native=False`, `fold_constants=False`, ...), ONE worker of each run (the
last shard) constructs every parser and makes every eval call with those parameters switched on, under the same monitors and oracles as the other
workers.  On the pinned tree there are no such parameters and this is a no-op (counted as such in the evidence)."""
import inspect

KNOWN_INIT = {'self', 'parse_cache'}
KNOWN_EVAL = {'self', 'expr', 'names', 'ast_names', 'max_ops_evaluated'}


def unknown_flags(fn, known):
    out = {}
    try:
        params = inspect.signature(fn).parameters
    except (TypeError, ValueError):
        return out
    for name, p in params.items():
        if name in known or p.kind not in (p.POSITIONAL_OR_KEYWORD, p.KEYWORD_ONLY):
            continue
        if isinstance(p.default, bool):
            out[name] = not p.default
    return out


def install(ctx):
    """-> description of what was switched on (empty on a tree without unknown flags)"""
    from smartquery import sq_parser
    cls = sq_parser.SqParser
    init_flags = unknown_flags(cls.__init__, KNOWN_INIT)
    eval_flags = unknown_flags(cls.eval, KNOWN_EVAL)
    if init_flags:
        orig_init = cls.__init__

        def __init__(self, *a, **k):
            for kk, v in init_flags.items():
                k.setdefault(kk, v)
            orig_init(self, *a, **k)
        cls.__init__ = __init__
    if eval_flags:
        orig_eval = cls.eval

        def eval(self, *a, **k):
            for kk, v in eval_flags.items():
                k.setdefault(kk, v)
            return orig_eval(self, *a, **k)
        cls.eval = eval
    return {'constructor': init_flags, 'eval': eval_flags}
