"""Span tracking on top of the reference parser R1 (used by C15 to know where subexpressions, argument
lists and call forms start and end).  R1 itself stays untouched: this subclass only observes it.

parse(tokens) -> (tree, info) with
  info.spans     set of (start, end) token ranges that are complete subexpressions and may be parenthesised
  info.calls     list of dicts {kind: call|meth|pipe, name, span, recv: (s, e)|None, args: [(s, e)...], lparen, rparen}
  info.closers   list of (index of closing bracket, kind) where a trailing comma may be inserted
"""
from lib.refparser import RefParser, BIN

OPENERS = {'LPAREN': 'RPAREN', 'LBRACKET': 'RBRACKET', 'LBRACE': 'RBRACE'}
CLOSERS = set(OPENERS.values())
EXPR_END = {'NAME', 'NUMBER', 'STRING', 'TRUE', 'FALSE', 'NONE', 'RPAREN', 'RBRACKET', 'RBRACE'}


class Info:
    def __init__(self):
        self.spans = set()
        self.nowrap = set()
        self.nowrap_regions = []
        self.calls = []
        self.closers = []


class SpanParser(RefParser):
    def __init__(self, toks, quirks=()):
        super().__init__(toks, quirks)
        self.info = Info()
        self._starts = []

    def match(self, i):
        """index of the bracket closing the opener at i"""
        depth = 0
        for j in range(i, len(self.t)):
            ty = self.t[j][0]
            if ty in OPENERS:
                depth += 1
            elif ty in CLOSERS:
                depth -= 1
                if depth == 0:
                    return j
        return None

    def split_args(self, l, r):
        """token ranges of the comma-separated items between brackets l and r (trailing comma ignored)"""
        out, depth, s = [], 0, l + 1
        for j in range(l + 1, r):
            ty = self.t[j][0]
            if ty in OPENERS:
                depth += 1
            elif ty in CLOSERS:
                depth -= 1
            elif ty == 'COMMA' and depth == 0:
                out.append((s, j))
                s = j + 1
        if s < r:
            out.append((s, r))
        return out

    # ---- observation hooks
    def expr(self, ctx):
        start = self.i
        self._starts.append(start)
        try:
            node = super().expr(ctx)
        finally:
            self._starts.pop()
        self.info.spans.add((start, self.i))
        if self._starts and start > 0:
            prev = self.t[start - 1][0]
            if prev in BIN or prev in ('ELSE', 'NOT', 'MINUS'):
                # the enclosing binary / conditional / unary node ends where its last operand ends
                self.info.spans.add((self._starts[-1], self.i))
        return node

    def prefix(self):
        start = self.i
        node = super().prefix()
        self.info.spans.add((start, self.i))
        ty = self.t[start][0]
        if node[0] == 'Lambda' and ty == 'LPAREN':
            r = self.match(start)
            self.info.nowrap_regions.append((start, r + 1))       # parameter list: names, not expressions
        if node[0] == 'Call' and ty == 'NAME' and start + 1 < len(self.t) and self.t[start + 1][0] == 'LPAREN':
            l, r = start + 1, self.match(start + 1)
            args = self.split_args(l, r)
            self.info.calls.append({'kind': 'call', 'name': self.t[start][1], 'span': (start, self.i), 'recv': None, 'args': args, 'lparen': l, 'rparen': r})
            if args:
                self.info.closers.append((r, 'call'))
        if ty == 'LBRACKET':
            r = self.match(start)
            if r is not None and r > start + 1:
                self.info.closers.append((r, 'list'))
        if ty == 'LBRACE':
            r = self.match(start)
            if r is not None and r > start + 1:
                self.info.closers.append((r, 'dict'))
        return node

    def index_suffix(self, lhs):
        node = super().index_suffix(lhs)
        self.info.spans.add((self._starts[-1], self.i))
        return node

    def dot_suffix(self, lhs):
        dot = self.i
        node = super().dot_suffix(lhs)
        s = self._starts[-1]
        l = dot + 2
        r = self.match(l)
        args = self.split_args(l, r)
        self.info.spans.add((s, self.i))
        self.info.calls.append({'kind': 'meth', 'name': self.t[dot + 1][1], 'span': (s, self.i), 'recv': (s, dot), 'args': args, 'lparen': l, 'rparen': r})
        if args:
            self.info.closers.append((r, 'method'))
        return node

    def pipe_suffix(self, lhs):
        pipe = self.i
        node = super().pipe_suffix(lhs)
        s = self._starts[-1]
        self.info.spans.add((s, self.i))
        if pipe + 2 < len(self.t) and self.t[pipe + 2][0] == 'LPAREN' and self.i > pipe + 2:
            l = pipe + 2
            r = self.match(l)
            args = self.split_args(l, r)
            self.info.closers.append((r, 'pipe'))
        else:
            l = r = None
            args = []
        self.info.calls.append({'kind': 'pipe', 'name': self.t[pipe + 1][1], 'span': (s, self.i), 'recv': (s, pipe), 'args': args, 'lparen': l, 'rparen': r})
        return node

    def statement(self):
        start = self.i
        node = super().statement()
        if node is not None and node[0] == 'Call' and node[1] in ('__setitem__', '__setitem_with_op__', '__delitem__'):
            if self.t[start][0] == 'DEL':
                self.info.nowrap.add((start + 1, self.i))
            else:
                depth = 0
                for j in range(start, self.i):
                    ty = self.t[j][0]
                    if ty in OPENERS:
                        depth += 1
                    elif ty in CLOSERS:
                        depth -= 1
                    elif ty in ('ASSIGN', 'SHORT_OP') and depth == 0:
                        self.info.nowrap.add((start, j))          # the index target is not a parenthesisable expression
                        break
        return node


def parse(toks, quirks=()):
    p = SpanParser(toks, quirks)
    tree = p.program()
    info = p.info
    ok = set()
    for (s, e) in info.spans:
        if e <= s or (s, e) in info.nowrap:
            continue
        if any(a <= s and e <= b for a, b in info.nowrap_regions):
            continue
        ok.add((s, e))
    info.spans = ok
    return tree, info
