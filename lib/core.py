"""Runner shared by every check: parent (shard, watch, merge, classify, evidence, verdict) and
worker (journal, soft deadline, counters).  Standard library only.

A check module `checks/cNN.py` provides

    ID                     'C01'
    RULE                   text for evidence.coverage.rule
    ASSUMPTIONS            list of strings
    setup(ctx)             once per worker, after smartquery was imported from the sandbox copy
    cases(ctx)             generator of picklable cases for this shard (ctx.rnd, ctx.shard, ctx.nshards, ctx.tier)
    run_case(case, ctx)    drives the real code under the monitors; reports through ctx
    conclusive(m)          m = merged result; returns None or the reason why the run decides nothing
    CASE_DEADLINE          soft seconds per case (default 20)
    FINDINGS               {key: text} mechanism classifiers this check knows (subset may be enabled)

Verdicts: 0 held, 1 violated (VIOLATION line), 2 inconclusive (INCONCLUSIVE line).
"""
import base64
import collections
import hashlib
import importlib
import json
import os
import pickle
import random
import resource
import signal
import subprocess
import sys
import time
import traceback

VERIF = os.path.dirname(os.path.dirname(os.path.abspath(__file__)))
PY = '/venv/bin/python'
GUARD = 'SMARTQUERY_VERIF'


class CaseTimeout(BaseException):
    """Soft per-case deadline (harness-owned; deliberately not an Exception)."""


def h64(s):
    if not isinstance(s, bytes):
        s = str(s).encode('utf-8', 'surrogatepass')
    return int.from_bytes(hashlib.blake2b(s, digest_size=8).digest(), 'big')


def jsonable(o, depth=0):
    """Lossy, readable rendering for evidence / witnesses."""
    if depth > 8:
        return '…'
    if o is None or isinstance(o, (bool, int, str)):
        if isinstance(o, int) and not isinstance(o, bool) and abs(o) > 10 ** 15:
            return 'int:' + str(o)[:60]
        if isinstance(o, str):
            o = o.encode('utf-8', 'backslashreplace').decode('utf-8')
            if len(o) > 400:
                return o[:400] + '…(%d chars)' % len(o)
        return o
    if isinstance(o, float):
        return o if o == o and abs(o) != float('inf') else repr(o)
    if isinstance(o, dict):
        return {str(jsonable(k, depth + 1)): jsonable(v, depth + 1) for k, v in list(o.items())[:40]}
    if isinstance(o, (list, tuple, set, frozenset)):
        l = [jsonable(x, depth + 1) for x in list(o)[:40]]
        if len(o) > 40:
            l.append('…(%d items)' % len(o))
        return l
    r = repr(o)
    return r if len(r) <= 200 else r[:200] + '…'


class Ctx:
    def __init__(self, check, shard, nshards, tier, seed):
        self.check, self.shard, self.nshards, self.tier, self.seed = check, shard, nshards, tier, seed
        self.rnd = random.Random(h64('%s/%d/%d' % (check, seed, shard)))
        self.counters = collections.Counter()
        self.cover = collections.defaultdict(set)
        self.nontrivial = set()
        self.nontrivial_enum = 0
        self.evaluations = 0
        self.samples = []
        self.violations = []
        self.viol_counts = collections.Counter()
        self.timeouts = []
        self.notes = []
        self.quick = tier == 'quick'
        self.replaying = False

    # ---- reporting API used by checks
    def count(self, name, n=1):
        self.counters[name] += n

    def cov(self, table, item):
        self.cover[table].add(item)

    def nontriv(self, key):
        self.nontrivial.add(h64(key))

    def sample(self, obj, every=1):
        """Keep a few real cases: the first three and then a thin reservoir."""
        n = self.counters['__samples_offered'] = self.counters['__samples_offered'] + 1
        if len(self.samples) < 3:
            self.samples.append(jsonable(obj))
        elif len(self.samples) < 6 and self.rnd.random() < 0.002:
            self.samples.append(jsonable(obj))

    def violation(self, what, case, finding=None, detail=None):
        """what: short class of the violation; finding: mechanism key if a classifier matched."""
        k = (finding, what)
        self.viol_counts['%s|%s' % (finding or '', what)] += 1
        if sum(1 for v in self.violations if (v['finding'], v['what']) == k) >= 5:
            return
        if getattr(self, 'optsweep_on', None):
            detail = dict(detail or {}, seen_with_these_options_switched_on=repr(self.optsweep_on))
        try:
            blob = base64.b64encode(pickle.dumps(case)).decode()
        except Exception:
            blob = None
        self.violations.append({'finding': finding, 'what': what, 'case': jsonable(case),
                                'detail': jsonable(detail), 'pickle': blob})

    def mine(self, i):
        return i % self.nshards == self.shard

    def scale(self, quick, thorough):
        return quick if self.quick else thorough

    def result(self):
        c = dict(self.counters)
        c.pop('__samples_offered', None)
        return {'evaluations': self.evaluations, 'nontrivial': sorted(self.nontrivial),
                'nontrivial_enum': self.nontrivial_enum, 'counters': c,
                'cover': {k: sorted(v, key=str) for k, v in self.cover.items()},
                'samples': self.samples, 'violations': self.violations,
                'viol_counts': dict(self.viol_counts), 'timeouts': self.timeouts[:20],
                'n_timeouts': len(self.timeouts), 'notes': self.notes[:20]}


class deadline:
    def __init__(self, seconds):
        self.s = seconds

    def _fire(self, *a):
        raise CaseTimeout()

    def __enter__(self):
        self.old = signal.signal(signal.SIGALRM, self._fire)
        signal.setitimer(signal.ITIMER_REAL, self.s)

    def __exit__(self, *a):
        signal.setitimer(signal.ITIMER_REAL, 0)
        signal.signal(signal.SIGALRM, self.old)
        return False


def load_check(cid):
    sys.path.insert(0, VERIF) if VERIF not in sys.path else None
    return importlib.import_module('checks.' + cid.lower())


# --------------------------------------------------------------------------------- worker

def worker_main(argv):
    import faulthandler
    faulthandler.enable()
    cid, shard, nshards, tier, seed, sandbox_dir, out = argv
    shard, nshards, seed = int(shard), int(nshards), int(seed)
    mem = int(os.environ.get('VERIF_RLIMIT_AS', str(3 << 30)))
    resource.setrlimit(resource.RLIMIT_AS, (mem, mem))
    sys.setrecursionlimit(1000)
    from lib import sandbox
    sandbox.activate(sandbox_dir)
    mod = load_check(cid)
    ctx = Ctx(cid, shard, nshards, tier, seed)
    ctx.sandbox_dir = sandbox_dir
    journal = open(out + '.journal', 'w')
    t0 = time.time()
    if shard == nshards - 1 and nshards > 1:
        # option sweep (lib/optsweep.py): this worker switches on every boolean keyword parameter of SqParser / SqParser.eval that the checks do not know
        from lib import optsweep
        on = optsweep.install(ctx)
        if on['constructor'] or on['eval']:
            ctx.optsweep_on = on
            ctx.notes.append('option sweep: this worker ran with %r' % (on,))
            ctx.counters['workers_running_with_unknown_boolean_options_switched_on'] += 1
        else:
            ctx.counters['option_sweep_found_no_unknown_boolean_options(no-op)'] += 1
    mod.setup(ctx)
    soft = getattr(mod, 'CASE_DEADLINE', 20)
    budget = float(os.environ.get('VERIF_WORKER_BUDGET', '0')) or None
    start_idx = int(os.environ.get('VERIF_START_IDX', '0'))
    stop_n = int(os.environ.get('VERIF_STOP_ON_VIOLATION', '0'))
    only_kind = os.environ.get('VERIF_ONLY_KIND')           # development aid (never set by a registered command): run one kind of case alone
    for idx, case in enumerate(mod.cases(ctx)):
        if idx < start_idx:
            continue
        if only_kind and not (isinstance(case, tuple) and case and case[0] == only_kind):
            continue
        if getattr(mod, 'JOURNAL', False):
            journal.seek(0)
            try:
                blob = base64.b64encode(pickle.dumps(case)).decode() if getattr(mod, 'JOURNAL_PICKLE', False) else None
            except Exception:
                blob = None
            journal.write(json.dumps({'idx': idx, 'case': jsonable(case), 'pickle': blob}) + '\n')
            journal.truncate()
            journal.flush()
        ctx.evaluations += 1
        try:
            with deadline(mod.case_deadline(case) if hasattr(mod, 'case_deadline') else soft):
                mod.run_case(case, ctx)
        except CaseTimeout:
            ctx.timeouts.append(jsonable(case))
            if hasattr(mod, 'after_timeout'):
                mod.after_timeout(ctx)
        if stop_n:
            # used by the mutant tools only (never by a registered command): a tree that is already shown to violate need not be explored further
            if sum(1 for v in ctx.violations if v['finding'] is None) >= stop_n:
                ctx.notes.append('stopped after %d unlisted violations (VERIF_STOP_ON_VIOLATION)' % stop_n)
                open(os.path.join(sandbox_dir, '_stop'), 'w').close()
                break
            if idx % 16 == 0 and os.path.exists(os.path.join(sandbox_dir, '_stop')):
                ctx.notes.append('stopped: another worker met a violation (VERIF_STOP_ON_VIOLATION)')
                break
        if budget and time.time() - t0 > budget:
            ctx.notes.append('worker budget %.0fs reached after %d cases' % (budget, idx + 1))
            ctx.counters['budget_stops'] += 1
            break
    if hasattr(mod, 'finish'):
        mod.finish(ctx)
    res = ctx.result()
    res['wall'] = time.time() - t0
    with open(out, 'w') as f:
        json.dump(res, f)
    journal.close()
    return 0


# --------------------------------------------------------------------------------- parent

def known_findings(cid):
    """-> set of enabled mechanism keys for this property (from the committed file only)."""
    keys = {}
    p = os.path.join(VERIF, 'known_findings.txt')
    if os.path.exists(p):
        for line in open(p):
            line = line.strip()
            if not line.startswith('known:'):
                continue
            parts = line.split()
            kv = dict(x.split('=', 1) for x in parts[1:3] if '=' in x)
            if kv.get('property') == cid and 'key' in kv:
                keys[kv['key']] = ' '.join(parts[3:])
    return keys


def merge(results):
    m = {'evaluations': 0, 'nontrivial': set(), 'nontrivial_enum': 0, 'counters': collections.Counter(),
         'cover': collections.defaultdict(set), 'samples': [], 'violations': [],
         'viol_counts': collections.Counter(), 'timeouts': [], 'n_timeouts': 0, 'notes': [], 'walls': []}
    for r in results:
        m['evaluations'] += r['evaluations']
        m['nontrivial'].update(r['nontrivial'])
        m['nontrivial_enum'] += r['nontrivial_enum']
        for k, v in r['counters'].items():
            if k.startswith('max_'):
                m['counters'][k] = max(m['counters'][k], v)
            else:
                m['counters'][k] += v
        for k, v in r['cover'].items():
            m['cover'][k].update(tuple(x) if isinstance(x, list) else x for x in v)
        m['samples'] += r['samples'][:2]
        m['violations'] += r['violations']
        m['viol_counts'].update(r['viol_counts'])
        m['timeouts'] += r['timeouts']
        m['n_timeouts'] += r['n_timeouts']
        m['notes'] += r['notes']
        m['walls'].append(round(r.get('wall', 0), 1))
    m['distinct_nontrivial'] = len(m['nontrivial']) + m['nontrivial_enum']
    return m


def write_evidence(mod, cid, tier, seed, m, wall, nviol, extra=None):
    cov = {
        'evaluations': m['evaluations'],
        'distinct_nontrivial': m['distinct_nontrivial'],
        'rule': mod.RULE,
        'samples': m['samples'][:8] or ['(no sample recorded)'],
        'monitor_counters': dict(sorted(m['counters'].items())),
        'coverage_tables': {k: {'n': len(v), 'items': sorted(map(str, v))[:80]} for k, v in sorted(m['cover'].items())},
        'timed_out_cases': m['n_timeouts'],
        'timed_out_case_examples': [str(x)[:3000] for x in m['timeouts'][:5]],
        'violation_counts': dict(m['viol_counts']),
        'workers': len(m['walls']),
        'worker_wall_s': m['walls'],
        'notes': m['notes'][:10],
    }
    if extra:
        cov.update(extra)
    ev = {'property_id': cid, 'tier': tier, 'seed': seed, 'level': 'exploration', 'coverage': cov,
          'assumptions': list(mod.ASSUMPTIONS), 'wall_s': round(wall, 2), 'violations': nviol}
    # a run pointed at a scratch tree (VERIF_REPO, mutant tools) must not overwrite the evidence of the repository's own tree
    edir = os.path.join(VERIF, 'evidence') if os.environ.get('VERIF_REPO', '/repo') == '/repo' else os.path.join(VERIF, 'replays', 'scratch-evidence')
    os.makedirs(edir, exist_ok=True)
    with open(os.path.join(edir, cid + '.json'), 'w') as f:
        json.dump(ev, f, indent=1, sort_keys=True, default=str)
        f.write('\n')


def parent_main(cid, tier, seed, nworkers, replay=None):
    from lib import sandbox
    mod = load_check(cid)
    t0 = time.time()
    base = sandbox.make()
    try:
        if replay:
            return do_replay(mod, cid, base, replay, tier, seed)
        nworkers = min(nworkers, getattr(mod, 'MAX_WORKERS', nworkers))
        env = dict(os.environ, PYTHONHASHSEED='0', PYTHONPATH=VERIF, PYTHONDONTWRITEBYTECODE='1')
        env[GUARD] = '1'
        def spawn(i, start=0):
            out = os.path.join(base, 'out-%d-%d.json' % (i, start))
            err = open(os.path.join(base, 'err-%d.txt' % i), 'a')
            e2 = dict(env, VERIF_START_IDX=str(start))
            p = subprocess.Popen([PY, '-c', 'import sys; from lib.core import worker_main; sys.exit(worker_main(sys.argv[1:]))',
                                  cid, str(i), str(nworkers), tier, str(seed), base, out],
                                 cwd=VERIF, env=e2, stdout=err, stderr=subprocess.STDOUT)
            return {'p': p, 'out': out, 'err': err, 'shard': i, 'last': None, 'since': time.time(), 'restarts': 0}

        def journal_of(w):
            try:
                return json.loads(open(w['out'] + '.journal').read() or 'null')
            except Exception:
                return None

        def cpu_of(pid):
            try:
                f = open('/proc/%d/stat' % pid).read().rsplit(')', 1)[1].split()
                return (int(f[11]) + int(f[12])) / os.sysconf('SC_CLK_TCK')
            except Exception:
                return None

        workers = [spawn(i) for i in range(nworkers)]
        hard = getattr(mod, 'HARD_TIMEOUT', {'quick': 900, 'thorough': 6 * 3600})[tier]
        hang_limit = getattr(mod, 'CASE_HARD_TIMEOUT', None)
        results, dead, hangs = [], [], []
        live = list(workers)
        while live:
            for w in list(live):
                rc = w['p'].poll()
                now = time.time()
                if rc is None and now - t0 > hard:
                    w['p'].kill()
                    w['p'].wait()
                    rc = 'watchdog'
                if rc is None and hang_limit:
                    j = journal_of(w)
                    key = j and j.get('idx')
                    if key != w['last']:
                        w['last'], w['since'] = key, now
                    elif j is not None and now - w['since'] > hang_limit:
                        cpu = cpu_of(w['p'].pid)
                        w['p'].kill()
                        w['p'].wait()
                        hangs.append({'shard': w['shard'], 'journal': j, 'cpu_s': cpu, 'wall_s': round(now - w['since'], 1)})
                        live.remove(w)
                        w['err'].close()
                        if w['restarts'] < 6:
                            nw = spawn(w['shard'], j['idx'] + 1)
                            nw['restarts'] = w['restarts'] + 1
                            live.append(nw)
                        continue
                if rc is None:
                    continue
                live.remove(w)
                w['err'].close()
                if rc == 0 and os.path.exists(w['out']):
                    results.append(json.load(open(w['out'])))
                else:
                    tail = open(w['err'].name, errors='replace').read()[-3000:]
                    dead.append({'shard': w['shard'], 'rc': rc, 'journal': journal_of(w), 'stderr_tail': tail})
            if live:
                time.sleep(0.1 if hang_limit else 0.05)
        if hangs and hasattr(mod, 'judge_hang'):
            extra = {'evaluations': 0, 'nontrivial': [], 'nontrivial_enum': 0, 'counters': {'cases_killed_by_hard_watchdog': len(hangs)}, 'cover': {},
                     'samples': [], 'violations': [], 'viol_counts': {}, 'timeouts': [], 'n_timeouts': 0, 'notes': [], 'wall': 0}
            for h in hangs:
                v = mod.judge_hang(h)
                if v is None:
                    dead.append({'shard': h['shard'], 'rc': 'hard-watchdog (inconclusive: starved)', 'journal': h['journal'], 'stderr_tail': ''})
                else:
                    extra['violations'].append(v)
                    extra['viol_counts']['%s|%s' % (v.get('finding') or '', v['what'])] = extra['viol_counts'].get('%s|%s' % (v.get('finding') or '', v['what']), 0) + 1
            results.append(extra)
        elif hangs:
            for h in hangs:
                dead.append({'shard': h['shard'], 'rc': 'hard-watchdog', 'journal': h['journal'], 'stderr_tail': ''})
        m = merge(results)
        wall = time.time() - t0
        return verdict(mod, cid, tier, seed, m, dead, wall)
    finally:
        sandbox.remove(base)


def verdict(mod, cid, tier, seed, m, dead, wall):
    enabled = known_findings(cid)
    os.makedirs(os.path.join(VERIF, 'replays'), exist_ok=True)
    viols, known_hits = [], collections.OrderedDict()
    for v in m['violations']:
        if v['finding'] and v['finding'] in enabled:
            known_hits.setdefault(v['finding'], v)
        else:
            viols.append(v)
    # a dead worker: violation only where the property says so
    crash_viol = []
    for d in dead:
        if getattr(mod, 'DEATH_IS_VIOLATION', False) and isinstance(d['rc'], int) and d['rc'] < 0:
            crash_viol.append({'finding': None, 'what': 'interpreter died with signal %d' % -d['rc'],
                               'case': d['journal'], 'detail': d['stderr_tail'][-800:], 'pickle': None})
    viols += crash_viol
    n_known = sum(n for k, n in m['viol_counts'].items() if k.split('|')[0] in enabled)
    n_viol = sum(m['viol_counts'].values()) - n_known + len(crash_viol)
    extra = {'known_finding_hits': {k: sum(n for kk, n in m['viol_counts'].items() if kk.split('|')[0] == k) for k in known_hits},
             'dead_workers': len(dead)}
    write_evidence(mod, cid, tier, seed, m, wall, n_viol, extra)
    for k, v in known_hits.items():
        print('KNOWN-FINDING: property=%s key=%s %s | e.g. %s' % (cid, k, v['what'], json.dumps(v['case'], default=str)[:300]))
    if viols:
        seen = set()
        for n, v in enumerate(viols):
            path = os.path.join(VERIF, 'replays', '%s-%s-%d-%d.json' % (cid, tier, seed, n))
            with open(path, 'w') as f:
                json.dump({'property': cid, 'tier': tier, 'seed': seed, **v}, f, indent=1, default=str)
            sig = (v['finding'], ''.join(ch for ch in v['what'] if not ch.isdigit()))
            if (sig in seen and n >= 6) or len(seen) >= 25:
                continue
            seen.add(sig)
            print('VIOLATION property=%s replay=%s' % (cid, path))
            print('  what: %s%s' % (v['what'], ' (mechanism %s, not listed in known_findings.txt)' % v['finding'] if v['finding'] else ''))
            print('  case: %s' % json.dumps(v['case'], default=str)[:600])
            if v.get('detail') is not None:
                print('  detail: %s' % json.dumps(v['detail'], default=str)[:900])
        print('%s: VIOLATED  (%d violating observations in %d cases, %.1fs)' % (cid, n_viol, m['evaluations'], wall))
        return 1
    why = None
    if dead and not crash_viol:
        d = dead[0]
        why = 'worker %d did not finish (rc=%s, last case %s): %s' % (d['shard'], d['rc'], json.dumps(d['journal'])[:200], d['stderr_tail'][-1500:])
    if why is None:
        why = mod.conclusive(m)
    if why:
        print('INCONCLUSIVE property=%s %s' % (cid, why))
        return 2
    print('%s: held on %d cases (%d distinct non-trivial), %d timed-out cases, %d known-finding observations, %.1fs'
          % (cid, m['evaluations'], m['distinct_nontrivial'], m['n_timeouts'], n_known, wall))
    return 0


def do_replay(mod, cid, base, path, tier, seed):
    from lib import sandbox
    sandbox.activate(base)
    os.environ[GUARD] = '1'
    w = json.load(open(path))
    if not w.get('pickle'):
        print('replay file carries no case payload')
        return 2
    case = pickle.loads(base64.b64decode(w['pickle']))
    ctx = Ctx(cid, 0, 1, tier, seed)
    ctx.replaying = True
    ctx.sandbox_dir = base
    mod.setup(ctx)
    try:
        with deadline(getattr(mod, 'CASE_DEADLINE', 20) * 5):
            mod.run_case(case, ctx)
    except CaseTimeout:
        print('replay: case timed out')
    enabled = known_findings(cid)
    rc = 0
    for v in ctx.violations:
        if v['finding'] and v['finding'] in enabled:
            print('KNOWN-FINDING: property=%s key=%s %s' % (cid, v['finding'], v['what']))
        else:
            print('VIOLATION property=%s replay=%s' % (cid, path))
            print('  what: %s' % v['what'])
            print('  detail: %s' % json.dumps(v['detail'], default=str)[:1500])
            rc = 1
    if not ctx.violations:
        print('replay: no violation observed on the current tree')
    return rc
