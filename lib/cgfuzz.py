"""Coverage-guided text generation (atheris / libFuzzer) as one more workload for C16's oracle.

Run as a subprocess:  python -m lib.cgfuzz <deps_dir> <sandbox_dir> <work_dir> <seconds> <seed>
  deps_dir   : where `pip install --no-index --find-links /opt/veriftools/wheels --target <deps_dir> atheris` put atheris (done by the check, per run)
  sandbox_dir: the scratch copy of the package (imported under coverage instrumentation, PLY included)
  work_dir   : corpus/ (seed texts, one per file) and artifacts/ (inputs on which the oracle fired)

The target hands every generated text to parse, list_names and eval of one long-lived parser.  Oracle (the same as C16's 'fuzz' family):
whatever is raised is an ordinary Exception; a text the reference lexer rejects makes list_names and parse raise ParserError; a text the reference
parser rejects makes parse raise ParserError.  When the oracle fires the target raises, libFuzzer writes the input to artifacts/ and stops; the
check re-judges that input itself (nothing this process prints is believed).  Counters go to work_dir/stats.json.
"""
import json
import os
import sys


def regex_samples(pattern, limit=12, maxlen=10):
    """a few strings matched by a (simple) token regex: literals, classes, alternations, minimal repeats - enough to spell operators and delimiters"""
    try:
        import re._parser as sp
    except ImportError:
        import sre_parse as sp
    try:
        tree = sp.parse(pattern)
    except Exception:
        return []

    def gen(items):
        outs = ['']
        for op, av in items:
            name = str(op)
            if name == 'LITERAL':
                alts = [chr(av)]
            elif name == 'IN':
                alts = []
                for o2, a2 in av:
                    if str(o2) == 'LITERAL':
                        alts.append(chr(a2))
                    elif str(o2) == 'RANGE':
                        alts.append(chr(a2[0]))
                    elif str(o2) == 'NEGATE':
                        alts = ['x']
                        break
                    elif str(o2) == 'CATEGORY':
                        alts.append({'CATEGORY_DIGIT': '1', 'CATEGORY_WORD': 'a', 'CATEGORY_SPACE': ' '}.get(str(a2), 'a'))
                alts = alts[:6] or ['a']
            elif name in ('MAX_REPEAT', 'MIN_REPEAT'):
                lo, hi, sub = av
                alts = [''] if lo == 0 else []
                alts += [x * max(lo, 1) for x in gen(list(sub))[:4]]
            elif name == 'SUBPATTERN':
                alts = gen(list(av[-1]))[:6]
            elif name == 'BRANCH':
                alts = []
                for b in av[1]:
                    alts += gen(list(b))[:3]
            elif name == 'ANY':
                alts = ['a']
            elif name == 'CATEGORY':
                alts = ['1']
            elif name in ('AT', 'ASSERT', 'ASSERT_NOT'):
                alts = ['']
            elif name == 'NOT_LITERAL':
                alts = ['a']
            else:
                alts = ['']
            outs = [o + a for o in outs for a in alts][:limit * 4]
        return outs
    try:
        return [x for x in dict.fromkeys(gen(list(tree))) if 0 < len(x) <= maxlen][:limit]
    except Exception:
        return []


def write_dictionary(path):
    """libFuzzer dictionary taken from the tree under test: what its lexer's token rules spell, its reserved words, the names in its function table"""
    words = []
    try:
        from smartquery import lexer, functions
        for k, v in vars(lexer).items():
            if k.startswith('t_') and k not in ('t_ignore', 't_error'):
                pat = v if isinstance(v, str) else (getattr(v, '__doc__', None) or '')
                words += regex_samples(pat.strip())
            elif isinstance(v, dict) and v and all(isinstance(a, str) and isinstance(b, str) for a, b in v.items()):
                words += list(v)
        words += list(functions.FUNCTIONS)
    except Exception:
        pass
    with open(path, 'w') as f:
        for w in dict.fromkeys(words):
            f.write('"%s"\n' % ''.join(c if (32 < ord(c) < 127 and c not in '"\\') else '\\x%02x' % b for c in w for b in c.encode('utf-8', 'surrogatepass')[:1] if len(c.encode('utf-8', 'surrogatepass')) == 1))
    return len(words)


def main():
    deps, sandbox_dir, work, seconds, seed = sys.argv[1:6]
    mode = sys.argv[6] if len(sys.argv) > 6 else 'c16'
    verif = os.path.dirname(os.path.dirname(os.path.abspath(__file__)))
    sys.path.insert(0, deps)
    sys.path.insert(0, verif)
    import atheris
    from lib import reflex, refparser, sandbox
    with atheris.instrument_imports(include=['smartquery']):
        sandbox.activate(sandbox_dir)
        from smartquery import SqParser
        from smartquery.exceptions import ParserError
    P = SqParser()
    stats = {'texts': 0, 'lexically_invalid': 0, 'syntactically_invalid': 0, 'valid': 0, 'raised': {}}

    class OracleFired(BaseException):
        pass

    def call(fn, *a):
        try:
            r = fn(*a)
            if hasattr(r, '__next__'):
                for _ in r:
                    pass
            return None
        except BaseException as e:          # noqa
            return e

    def target(data):
        try:
            text = data.decode('utf-8', 'surrogatepass')
        except UnicodeDecodeError:
            text = data.decode('latin-1')
        stats['texts'] += 1
        if stats['texts'] % 1000 == 0:
            json.dump(stats, open(os.path.join(work, 'stats.json'), 'w'))      # libFuzzer leaves through _exit: no atexit
        lex_bad = syn_bad = False
        try:
            toks = reflex.tokens(text)
            try:
                refparser.ref_parse([(t[0], t[1]) for t in toks])
            except refparser.Reject:
                syn_bad = True
            except RecursionError:
                pass
        except reflex.LexError:
            lex_bad = True
        stats['lexically_invalid' if lex_bad else 'syntactically_invalid' if syn_bad else 'valid'] += 1
        for entry, fn in (('parse', P.parse), ('list_names', P.list_names), ('eval', lambda s: P.eval(s, {'l': [1, 2, 3], 'd': {'k': 1}, 's': 'abc', 'x': 5, 'f': max}, None, 300))):
            e = call(fn, text)
            if e is None:
                if entry == 'list_names' and lex_bad:
                    raise OracleFired('list_names accepted a text the reference lexer rejects')
                continue            # (whether parse accepts exactly the grammar's texts is C06's business)
            k = type(e).__name__
            stats['raised'][k] = stats['raised'].get(k, 0) + 1
            if not isinstance(e, Exception):
                raise OracleFired('%s raised %s' % (entry, k))
            if ((entry == 'list_names' and lex_bad) or (entry == 'parse' and (lex_bad or syn_bad))) and not isinstance(e, ParserError):
                raise OracleFired('%s reported a lexical/syntax error as %s' % (entry, k))

    def target_c06(data):
        """differential: the tree parse() builds for the text vs the tree the reference lexer + reference parser assign to it (and accept iff accept)"""
        from lib import treeconv
        try:
            text = data.decode('utf-8', 'surrogatepass')
        except UnicodeDecodeError:
            text = data.decode('latin-1')
        stats['texts'] += 1
        if stats['texts'] % 1000 == 0:
            json.dump(stats, open(os.path.join(work, 'stats.json'), 'w'))
        try:
            toks = [(t[0], t[1]) for t in reflex.tokens(text)]
            lex_ok = True
        except reflex.LexError:
            lex_ok = False
        try:
            t = P.parse(text)
            try:
                i = ('ok', treeconv.norm(treeconv.conv(t)))
            except RecursionError:
                return
        except RecursionError:
            return
        except Exception:
            i = ('rej',)
        if not lex_ok:
            stats['lexically_invalid'] += 1
            if i[0] == 'ok':
                raise OracleFired('parse accepts a text the reference lexer rejects')
            return
        try:
            r = ('ok', treeconv.norm(refparser.ref_parse(toks)))
        except refparser.Reject:
            r = ('rej',)
        except RecursionError:
            return
        stats['valid' if r[0] == 'ok' else 'syntactically_invalid'] += 1
        if i == r or (i[0] == 'rej' and r[0] == 'rej'):
            return
        try:
            q = ('ok', treeconv.norm(refparser.ref_parse(toks, ('paren1',))))      # the listed known finding (C06 paren-single-param-lambda)
        except refparser.Reject:
            q = ('rej',)
        except RecursionError:
            return
        if i == q or (i[0] == 'rej' and q[0] == 'rej'):
            stats['known_finding'] = stats.get('known_finding', 0) + 1
            return
        raise OracleFired('parse and the reference disagree')

    def target_c18(data):
        """list_names(text) vs the NAME tokens of the reference lexer, in order; ParserError (after exactly the names before it) at an illegal character"""
        try:
            text = data.decode('utf-8', 'surrogatepass')
        except UnicodeDecodeError:
            text = data.decode('latin-1')
        stats['texts'] += 1
        if stats['texts'] % 1000 == 0:
            json.dump(stats, open(os.path.join(work, 'stats.json'), 'w'))
        try:
            truth, bad = [t[1] for t in reflex.tokens(text) if t[0] == 'NAME'], False
        except reflex.LexError as e:
            truth, bad = [t[1] for t in e.tokens if t[0] == 'NAME'], True
        got, err = [], None
        try:
            for n in P.list_names(text):
                got.append(n)
        except BaseException as e:       # noqa
            err = e
        stats['lexically_invalid' if bad else 'valid'] += 1
        if bad:
            if not isinstance(err, ParserError) or got != truth:
                raise OracleFired('list_names on a lexically invalid text')
        elif err is not None or got != truth:
            raise OracleFired('list_names differs from the NAME tokens of the reference lexer')

    if mode.startswith('check:'):
        # generic: the named check's own run_case on ('<kind>', text[, 0]) cases, in this process, under coverage guidance; the oracle fired when the check
        # recorded a violation that its classifier did not attribute to a listed known finding
        _, cid, kind = mode.split(':')
        from lib import core
        mod = core.load_check(cid)
        cctx = core.Ctx(cid, 0, 1, 'quick', int(seed))
        cctx.sandbox_dir = sandbox_dir
        mod.setup(cctx)
        known = set(core.known_findings(cid))       # mechanism keys listed in known_findings.txt: violations attributed to them do not fire the oracle
        from decimal import Decimal as _D
        extra = {'C06': (0,), 'C03': (10000, False), 'C01': (None, False), 'C13': (0, 'fuzz'),
                 'C04': ({'a': 10 ** 30 + 7, 'b': 2.5, 'c': [10 ** 30 + 7, _D('1234567890123456789012345678')], 's': 'ab', 'l': [1, 2], 'n': _D('1E+1000'), 't': True, 'm': 3},)
                 }.get(cid, ())      # the remaining fields of that check's text-carrying case kind

        def target_check(data):
            try:
                text = data.decode('utf-8', 'surrogatepass')
            except UnicodeDecodeError:
                text = data.decode('latin-1')
            stats['texts'] += 1
            if stats['texts'] % 100 == 0:
                stats['counters'] = {k: v for k, v in list(cctx.counters.items())[:40]}
                json.dump(stats, open(os.path.join(work, 'stats.json'), 'w'))
                cctx.nontrivial.clear()
                del cctx.samples[:]
            del cctx.violations[:]
            try:
                mod.run_case((kind, text) + extra, cctx)
            except RecursionError:
                return
            if any(v['finding'] not in known for v in cctx.violations):
                raise OracleFired(cctx.violations[0]['what'])
        target = target_check

    if mode == 'c06':
        target = target_c06
    if mode == 'c18':
        target = target_c18
    os.makedirs(os.path.join(work, 'artifacts'), exist_ok=True)
    stats['dictionary_words'] = write_dictionary(os.path.join(work, 'dict.txt'))
    atheris.Setup([sys.argv[0], os.path.join(work, 'corpus'), '-dict=%s' % os.path.join(work, 'dict.txt'), '-max_total_time=%s' % seconds, '-seed=%s' % seed, '-max_len=400', '-timeout=20', '-rss_limit_mb=2500',
                   '-artifact_prefix=%s/' % os.path.join(work, 'artifacts'), '-print_final_stats=1', '-verbosity=0'], target)
    atheris.Fuzz()


if __name__ == '__main__':
    main()
