"""Scratch copy of the package under test.

`SqParser()` rewrites smartquery/gen/parsetab.py and lextab.py next to the package on every
construction, so nothing is ever imported from the working tree itself: the parent copies
<repo>/smartquery into a fresh mkdtemp() directory, workers put that directory first on sys.path
and assert that `smartquery` really came from there.  The directory is removed by the parent.
"""
import os
import shutil
import sys
import tempfile

REPO = os.environ.get('VERIF_REPO', '/repo')


def make(repo=None):
    repo = repo or REPO
    src = os.path.join(repo, 'smartquery')
    if not os.path.isdir(src):
        raise RuntimeError('no package at %s' % src)
    base = tempfile.mkdtemp(prefix='sqverif-')
    shutil.copytree(src, os.path.join(base, 'smartquery'),
                    ignore=shutil.ignore_patterns('__pycache__', '*.pyc'))
    return base


def remove(base):
    shutil.rmtree(base, ignore_errors=True)


def activate(base):
    """Import smartquery from `base`; raise if anything else was picked up."""
    for m in [m for m in sys.modules if m == 'smartquery' or m.startswith('smartquery.')]:
        del sys.modules[m]
    if base in sys.path:
        sys.path.remove(base)
    sys.path.insert(0, base)
    import smartquery  # noqa
    origin = os.path.realpath(os.path.dirname(smartquery.__file__))
    want = os.path.realpath(os.path.join(base, 'smartquery'))
    if origin != want:
        raise RuntimeError('smartquery imported from %s, wanted %s' % (origin, want))
    return smartquery
