"""The repository's own test-suite as one more workload: run in THIS worker process, against the sandbox copy of the package, so that the monitors a
check has installed (M1 on every node class, wrappers in the function table, ...) observe every evaluation the maintainers' tests make.
The tests' own assertions are not the oracle here (they pass on any tree that gets this far); the monitors are."""
import os
import sys


class _Collect:
    def __init__(self):
        self.passed = self.failed = 0

    def pytest_runtest_logreport(self, report):
        if report.when == 'call':
            if report.passed:
                self.passed += 1
            elif report.failed:
                self.failed += 1


def run(ctx):
    """-> (tests passed, tests failed); counts into ctx"""
    import pytest
    repo = os.environ.get('VERIF_REPO', '/repo')
    tests = os.path.join(repo, 'tests')
    if not os.path.isdir(tests):
        ctx.count('repository_tests_not_found')
        return 0, 0
    import smartquery
    origin = os.path.realpath(os.path.dirname(smartquery.__file__))
    assert origin.startswith(os.path.realpath(ctx.sandbox_dir)), 'package not imported from the sandbox'
    c = _Collect()
    old_path = list(sys.path)
    old_mods = set(sys.modules)
    devnull = open(os.devnull, 'w')
    old_out, old_err = sys.stdout, sys.stderr
    sys.stdout = sys.stderr = devnull
    try:
        pytest.main(['-q', '-p', 'no:cacheprovider', '--rootdir', tests, '-o', 'addopts=', '--import-mode=importlib', tests], plugins=[c])
    except BaseException as e:      # noqa
        ctx.count('repository_tests_run_aborted(%s)' % type(e).__name__)
    finally:
        sys.stdout, sys.stderr = old_out, old_err
        devnull.close()
        sys.path[:] = old_path
        for m in set(sys.modules) - old_mods:
            if m.startswith('tests') or m.startswith('test_'):
                sys.modules.pop(m, None)
    ctx.count('repository_tests_passed_under_the_monitors', c.passed)
    ctx.count('repository_tests_failed_under_the_monitors', c.failed)
    import smartquery as again
    assert os.path.realpath(os.path.dirname(again.__file__)) == origin
    return c.passed, c.failed
