"""R1 - reference parser (DESIGN.md Appendix B).  Frozen in /verif; imports nothing from /repo.

Precedence climbing with yacc's shift/reduce rule made explicit, written from the C06 statement and
the published grammar.  Works on token lists [(type, value)] *after* the layout rule (a line break is
a NEWLINE token only at bracket depth 0; ';' always is).  Returns a neutral tree (nested tuples) or
raises Reject(index of the offending token; len(tokens) = end of input).

Quirk switches reproduce, one at a time, mechanisms by which an implementation was seen to deviate;
they are used only to *classify* a disagreement (known-finding keys), never to excuse one."""


class Reject(Exception):
    def __init__(self, idx, why=''):
        super().__init__('reject at token %d %s' % (idx, why))
        self.idx = idx
        self.why = why


RESERVED_UNUSED = {'FOR', 'WHILE', 'BREAK', 'CONTINUE', 'DEF', 'RAISE', 'ELIF'}
BIN = {  # token type -> (level, assoc)
    'OR': (3, 'left'), 'AND': (4, 'left'),
    'EQ': (5, 'nonassoc'), 'NE': (5, 'nonassoc'), 'GT': (5, 'nonassoc'), 'LT': (5, 'nonassoc'),
    'GTE': (5, 'nonassoc'), 'LTE': (5, 'nonassoc'), 'IN': (5, 'nonassoc'),
    'PLUS': (6, 'left'), 'MINUS': (6, 'left'), 'TIMES': (7, 'left'), 'DIVIDE': (7, 'left'),
    'POWER': (8, 'right'),
}
L_PIPE, L_DOT, L_NOT, L_UMINUS, L_BRACKET = 9, 10, 11, 12, 13
OPTEXT = {'OR': 'or', 'AND': 'and', 'EQ': '==', 'NE': '!=', 'GT': '>', 'LT': '<', 'GTE': '>=', 'LTE': '<=', 'IN': 'in',
          'PLUS': '+', 'MINUS': '-', 'TIMES': '*', 'DIVIDE': '/', 'POWER': '**'}
OPEN = (0, 'right')  # context with nothing to the left that could be reduced: everything binds


def binds(tok_level, ctx):
    """yacc rule: shift iff token level > rule level, or equal and rule is right-assoc; equal and nonassoc -> error."""
    lvl, assoc = ctx
    if tok_level > lvl:
        return True
    if tok_level == lvl:
        if assoc == 'right':
            return True
        if assoc == 'nonassoc':
            return None
    return False


class RefParser:
    def __init__(self, toks, quirks=()):
        self.t = list(toks)
        self.i = 0
        self.q = set(quirks)

    def la(self, k=0):
        j = self.i + k
        return self.t[j][0] if j < len(self.t) else '$end'

    def eat(self, typ):
        if self.la() != typ:
            raise Reject(self.i, 'expected ' + typ)
        v = self.t[self.i][1]
        self.i += 1
        return v

    def program(self):
        lines = []
        while True:
            st = self.statement()
            if st is not None:
                lines.append(st)
            if self.la() == 'NEWLINE':
                self.i += 1
                continue
            if self.la() == '$end':
                break
            raise Reject(self.i, 'junk after statement')
        return ('Code', tuple(lines))

    @staticmethod
    def _is_index(e):
        return e[0] == 'Call' and e[1] == '__getitem__' and e[3] == 'idx'

    def statement(self):
        la = self.la()
        if la in ('NEWLINE', '$end'):
            return None
        if la == 'NAME' and self.la(1) == 'ASSIGN':
            name = self.eat('NAME'); self.i += 1
            return ('Assign', name, self.expr(OPEN))
        if la == 'NAME' and self.la(1) == 'SHORT_OP':
            name = self.eat('NAME'); op = self.eat('SHORT_OP')
            return ('Short', name, op, self.expr(OPEN))
        if la == 'DEL':
            self.i += 1
            e = self.expr(OPEN)
            if self._is_index(e):
                return ('Call', '__delitem__', (e[2][0], e[2][1]), None)
            raise Reject(self.i, 'del needs index target')
        e = self.expr(OPEN)
        if self.la() in ('ASSIGN', 'SHORT_OP'):
            if not self._is_index(e):
                raise Reject(self.i, 'bad assignment target')
            if self.la() == 'ASSIGN':
                self.i += 1
                return ('Call', '__setitem__', (e[2][0], e[2][1], self.expr(OPEN)), None)
            op = self.eat('SHORT_OP')
            return ('Call', '__setitem_with_op__', (e[2][0], e[2][1], ('Value', op), self.expr(OPEN)), None)
        return e

    def expr(self, ctx):
        return self.infix(self.prefix(), ctx)

    def infix(self, lhs, ctx):
        while True:
            la = self.la()
            if la == 'LBRACKET':
                if not binds(L_BRACKET, ctx):
                    return lhs
                lhs = self.index_suffix(lhs)
            elif la == 'DOT':
                if not binds(L_DOT, ctx):
                    return lhs
                lhs = self.dot_suffix(lhs)
            elif la == 'PIPE':
                if not binds(L_PIPE, ctx):
                    return lhs
                lhs = self.pipe_suffix(lhs)
            elif la == 'NOT':
                if 'notin' in self.q:
                    b = binds(L_NOT, ctx)  # LALR(1) decides on NOT alone, with prefix-not's level
                    if not b:
                        return lhs
                    self.i += 1
                    self.eat('IN')
                else:
                    if self.la(1) != 'IN':
                        return lhs  # stray NOT: caller rejects
                    b = binds(5, ctx)
                    if b is None:
                        raise Reject(self.i, 'nonassoc chain')
                    if not b:
                        return lhs
                    self.i += 2
                rhs = self.expr((5, 'nonassoc'))
                lhs = ('Bin', 'not in', lhs, rhs)
            elif la in BIN:
                level, assoc = BIN[la]
                b = binds(level, ctx)
                if b is None:
                    raise Reject(self.i, 'nonassoc chain')
                if not b:
                    return lhs
                self.i += 1
                rhs = self.expr((level, assoc))
                lhs = ('Bin', OPTEXT[la], lhs, rhs)
            elif la == 'IF':
                if not binds(0, ctx):
                    return lhs
                self.i += 1
                cond = self.expr(OPEN)
                self.eat('ELSE')
                other = self.expr(OPEN)
                lhs = ('If', cond, lhs, other)
            else:
                return lhs

    def prefix(self):
        la = self.la()
        if la in ('NUMBER', 'STRING'):
            v = self.t[self.i][1]; self.i += 1
            return ('Value', v)
        if la == 'TRUE': self.i += 1; return ('Value', True)
        if la == 'FALSE': self.i += 1; return ('Value', False)
        if la == 'NONE': self.i += 1; return ('Value', None)
        if la in RESERVED_UNUSED:
            raise Reject(self.i, 'reserved')
        if la == 'NAME':
            name = self.t[self.i][1]
            if self.la(1) == 'LPAREN':
                self.i += 2
                return ('Call', name, tuple(self.arglist_until('RPAREN')), None)
            if self.la(1) == 'LAMBDA':
                self.i += 2
                return ('Lambda', (('Name', name),), self.expr(OPEN))
            self.i += 1
            return ('Name', name)
        if la == 'LPAREN':
            start = self.i
            self.i += 1
            first = self.expr(OPEN)
            if self.la() == 'RPAREN':
                self.i += 1
                if self.la() == 'LAMBDA' and self.t[start + 1][0] == 'NAME' and self.i == start + 3:
                    if 'paren1' in self.q:
                        raise Reject(self.i, '(x) => rejected by r/r resolution')
                    self.i += 1
                    return ('Lambda', (first,), self.expr(OPEN))
                if first[0] == 'Call' and first[3] is not None:
                    first = first[:3] + (None,)  # a parenthesised index is not an assignment target
                return first
            if self.la() == 'COMMA':
                items = [first]
                last_bare = False
                while self.la() == 'COMMA':
                    self.i += 1
                    pos = self.i
                    e = self.expr(OPEN)
                    last_bare = (self.t[pos][0] == 'NAME' and self.i == pos + 1)
                    items.append(e)
                if self.la() != 'RPAREN':
                    raise Reject(self.i, 'expected ) in param list')
                if not last_bare:
                    raise Reject(self.i, 'last param must be NAME')
                self.i += 1
                self.eat('LAMBDA')
                return ('Lambda', tuple(items), self.expr(OPEN))
            raise Reject(self.i, 'expected ) or ,')
        if la == 'LBRACKET':
            self.i += 1
            return ('Call', 'list', tuple(self.arglist_until('RBRACKET')), None)
        if la == 'LBRACE':
            self.i += 1
            if self.la() == 'RBRACE':
                self.i += 1
                return ('Call', 'dict', (), None)
            items = []
            while True:
                k = self.expr(OPEN)
                self.eat('COLON')
                v = self.expr(OPEN)
                items.append((k, v))
                if self.la() == 'COMMA':
                    self.i += 1
                    if self.la() == 'RBRACE':
                        if 'dictcomma' in self.q and len(items) >= 2:
                            raise Reject(self.i, 'trailing comma after >=2 dict items')
                        break
                    continue
                break
            self.eat('RBRACE')
            return ('Dict', tuple(items))
        if la == 'MINUS':
            self.i += 1
            return ('Unary', '-', self.expr((L_UMINUS, 'right')))
        if la == 'NOT':
            self.i += 1
            return ('Unary', 'not', self.expr((L_NOT, 'right')))
        raise Reject(self.i, 'unexpected token in prefix position')

    def arglist_until(self, closer):
        args = []
        if self.la() == closer:
            self.i += 1
            return args
        while True:
            args.append(self.expr(OPEN))
            if self.la() == 'COMMA':
                self.i += 1
                if self.la() == closer:
                    break
                continue
            break
        self.eat(closer)
        return args

    def index_suffix(self, lhs):
        self.eat('LBRACKET')
        parts = []
        while self.la() != 'RBRACKET':
            if self.la() == 'COLON':
                parts.append(':'); self.i += 1
            else:
                if parts and parts[-1] != ':':
                    raise Reject(self.i, 'two expressions in a row in slice')
                parts.append(self.expr(OPEN))
            if len(parts) > 3:
                raise Reject(self.i, 'slice too long')
        shape = ''.join(':' if p == ':' else 'e' for p in parts)
        if shape not in ('e', ':', 'e:e', 'e:', ':e', 'e::', ':e:', '::e'):
            raise Reject(self.i, 'slice form not in grammar: ' + shape)
        self.eat('RBRACKET')
        if shape == 'e':
            return ('Call', '__getitem__', (lhs, parts[0]), 'idx')
        args = []; was_arg = False
        for el in parts:
            if el == ':':
                if not was_arg:
                    args.append(('Value', None))
                else:
                    was_arg = False
            else:
                args.append(el); was_arg = True
        while len(args) < 3:
            args.append(('Value', None))
        return ('Call', '__getitem__', (lhs, ('Slice',) + tuple(args)), 'slice')

    def dot_suffix(self, lhs):
        self.eat('DOT')
        name = self.eat('NAME')
        self.eat('LPAREN')
        closed_at = self.i
        args = self.arglist_until('RPAREN')
        if 'methcomma' in self.q and self.t[self.i - 2][0] == 'COMMA':
            args = args[:-1]
        return ('Call', name, (lhs,) + tuple(args), None)

    def pipe_suffix(self, lhs):
        self.eat('PIPE')
        name = self.eat('NAME')
        if self.la() == 'LPAREN':
            self.i += 1
            if self.la() == 'RPAREN':
                raise Reject(self.i, 'pipe call with empty parens not in grammar')
            args = self.arglist_until('RPAREN')
            if 'methcomma' in self.q and self.t[self.i - 2][0] == 'COMMA':
                args = args[:-1]
            return ('Call', name, (lhs,) + tuple(args), None)
        return ('Call', name, (lhs,), None)


def ref_parse(toks, quirks=()):
    return RefParser(toks, quirks).program()
