"""M8 - heap-shape walker: type census, reachable mutable-container ids, max length, fingerprints."""
from decimal import Decimal

PLAIN_SCALARS = (type(None), bool, int, float, str)


def census(v, ok_callable_ids, out=None, seen=None, path='$', limit=3):
    """-> list of (path, type name) for everything reachable from v that is not plain data and not an allowed callable"""
    if out is None:
        out = []
    if seen is None:
        seen = set()
    t = type(v)
    if t in PLAIN_SCALARS or isinstance(v, Decimal):
        return out
    i = id(v)
    if i in seen:
        return out
    seen.add(i)
    if t is list or t is tuple:
        for k, x in enumerate(v):
            if len(out) >= limit:
                break
            census(x, ok_callable_ids, out, seen, '%s[%d]' % (path, k), limit)
        return out
    if t is dict:
        for k, x in v.items():
            if len(out) >= limit:
                break
            census(k, ok_callable_ids, out, seen, path + '.key', limit)
            census(x, ok_callable_ids, out, seen, '%s[%r]' % (path, k if isinstance(k, (str, int)) else '?'), limit)
        return out
    if t is slice:
        for n in ('start', 'stop', 'step'):
            census(getattr(v, n), ok_callable_ids, out, seen, path + '.' + n, limit)
        return out
    if i in ok_callable_ids:
        return out
    out.append((path, '%s.%s' % (t.__module__, t.__qualname__)))
    return out


def mutable_ids(v, seen=None, stop=None):
    """ids of all lists/dicts (subclasses included: OrderedDict, defaultdict, list subclasses) reachable from v; tuples are walked through.
    Iterative, so that containers nested deeper than the interpreter's recursion limit are walked too.  `stop`: a container whose id is
    recorded but which is not descended into."""
    if seen is None:
        seen = set()
    todo = [v]
    while todo:
        v = todo.pop()
        if isinstance(v, list):
            if id(v) in seen:
                continue
            seen.add(id(v))
            if v is not stop:
                todo.extend(list.__iter__(v))
        elif isinstance(v, tuple):
            todo.extend(v)
        elif isinstance(v, dict):
            if id(v) in seen:
                continue
            seen.add(id(v))
            if v is not stop:
                todo.extend(dict.values(v))
    return seen


def max_len(v, seen=None):
    """longest list/dict/tuple reachable from v (subclasses such as defaultdict / OrderedDict / list subclasses included; iterative)"""
    if seen is None:
        seen = set()
    m = 0
    todo = [v]
    while todo:
        v = todo.pop()
        if isinstance(v, (list, tuple, dict)):
            if id(v) in seen:
                continue
            seen.add(id(v))
            m = max(m, len(v))
            for x in (dict.values(v) if isinstance(v, dict) else tuple.__iter__(v) if isinstance(v, tuple) else list.__iter__(v)):
                if isinstance(x, (list, tuple, dict)):
                    todo.append(x)
    return m


def fingerprint(v, seen=None, depth=0):
    """structural fingerprint with element identities of containers (order-sensitive); cycle-safe.
    list/tuple/dict subclasses (e.g. a host defaultdict) are walked like their base types."""
    if seen is None:
        seen = {}
    t = type(v)
    if isinstance(v, (list, tuple)):
        if id(v) in seen:
            return ('cycle', seen[id(v)])
        seen[id(v)] = len(seen)
        return ('list' if isinstance(v, list) else 'tuple', id(v), tuple(fingerprint(x, seen, depth + 1) for x in v))
    if isinstance(v, dict):
        if id(v) in seen:
            return ('cycle', seen[id(v)])
        seen[id(v)] = len(seen)
        return ('dict', id(v), tuple((k if isinstance(k, (str, int, float, bool, type(None))) else repr(k), fingerprint(x, seen, depth + 1))
                                     for k, x in list(dict.items(v))))
    if isinstance(v, Decimal):
        return ('Decimal', str(v))
    if t in PLAIN_SCALARS:
        return (t.__name__, repr(v))
    return ('obj', t.__name__, id(v))
