"""R2 - reference evaluator (DESIGN.md Appendix C): Python semantics over decimal.Decimal for the neutral
trees produced by lib/refparser.py.  Frozen in /verif; imports nothing from /repo.

Outcome domain of run(): ('value', v) | ('perr', msg) | ('ops', msg) | ('other', exception class name)
Every evaluation of a node counts one operation, charged before anything else the node does.
"""
import copy
import functools
import math
import re
from decimal import Decimal

CAP = 10000


class PErr(Exception):
    """language-level error (the implementation's ParserError)"""


class OpsLimit(PErr):
    pass


class LDec(Decimal):
    """the decimal type of literals and of the numeric builtins: prints plainly also inside containers"""

    def __repr__(self):
        return Decimal.__str__(self)

    def __deepcopy__(self, memo):
        return self

    def __copy__(self):
        return self


class Lambda:
    """a lambda value: parameter names and body, NO captured environment (dynamic scoping)"""

    def __init__(self, params, body, machine):
        self.params, self.body, self.m = params, body, machine

    def __call__(self, *args):
        m = self.m
        scope = {}
        for p, a in zip(self.params, args):
            scope[p] = a
        m.scopes.append(scope)
        try:
            return m.ev(self.body)
        finally:
            m.scopes.pop()

    def __deepcopy__(self, memo):
        return self


NUM = (Decimal, int, float)


def multiply(a, b):
    if not isinstance(a, NUM) or not isinstance(b, NUM):
        raise PErr("Can't multiply non-numbers")
    return Decimal(a) * Decimal(b)


def check_size(c):
    if len(c) >= CAP:
        raise PErr('Array size overflow')


def key_cast(container, key):
    if isinstance(container, dict):
        return str(key)
    if isinstance(key, Decimal):
        return int(key)
    return key


# ----------------------------------------------------------------------------- builtins
def b_int(v):
    return LDec(int(v))


def b_float(v):
    return LDec(float(v))


def b_list(*a):
    return [*a]


def b_dict(*a):
    return dict(*a)


def b_replace(s, old, new, count=-1):
    return s.replace(old, new, int(count))


def b_split(s, sep=' ', max_split=-1):
    return s.split(sep, maxsplit=int(max_split))


def b_join(container, sep='\n'):
    return sep.join(map(str, container))


def _flags(f):
    if not f:
        return 0
    f = f.lower()
    return (re.I if 'i' in f else 0) | (re.M if 'm' in f else 0) | (re.S if 's' in f else 0)


def b_match(s, pattern, flags=None):
    m = re.search(pattern, s, _flags(flags))
    return None if m is None else m.group(0)


def b_match_groups(s, pattern, flags=None):
    m = re.search(pattern, s, _flags(flags))
    return None if m is None else [m.group(0), *m.groups()]


def b_match_all(s, pattern, flags=None):
    return re.findall(pattern, s, _flags(flags))


def b_pretty(value, sep=...):
    if isinstance(value, dict):
        if sep is ...:
            sep = '\n'
        return sep.join(['%s: %s' % (format(k), format(v)) for k, v in value.items()])
    if isinstance(value, list):
        if sep is ...:
            sep = ', '
        return sep.join([str(v) for v in value])
    if isinstance(value, Decimal):
        if sep is ...:
            sep = ' '
        s = str(value)
        body = s[1:] if s[0] == '-' else s
        if len(body) < 5:
            return s
        chunks = []
        i = len(body)
        while i > 0:
            chunks.insert(0, body[max(0, i - 3):i])
            i -= 3
        return ('-' if s[0] == '-' else '') + sep.join(chunks)
    return str(value)


def b_keys(v):
    return list(v.keys())


def b_values(v):
    return list(v.values())


def b_items(v):
    return list(v.items())


def b_sum(v):
    return sum(v) if isinstance(v, list) else v


def b_get(container, key, default=None):
    return container.get(key_cast(container, key), default)


def b_getitem(container, key):
    key = key_cast(container, key)
    try:
        return container[key]
    except LookupError:
        raise PErr('Key error %r' % (key,))


def b_delitem(container, key):
    key = key_cast(container, key)
    if isinstance(container, dict):
        if key in container:
            del container[key]
    else:
        if len(container) > key:
            del container[key]


def b_setitem(container, key, value):
    check_size(container)
    key = key_cast(container, key)
    container[key] = copy.deepcopy(value)
    return None          # a statement yields None (the implementation returns the value: known finding)


def b_setitem_with_op(container, key, op, value):
    check_size(container)
    key = key_cast(container, key)
    value = copy.deepcopy(value)
    try:
        cur = container[key]
    except LookupError:
        raise PErr('Key error %r' % (key,))
    if op == '+=':
        cur += value
    elif op == '-=':
        cur -= value
    elif op == '*=':
        cur = multiply(cur, value)
    elif op == '/=':
        cur /= value
    else:
        raise PErr('Unsupported short op')
    container[key] = cur
    return None


def b_map(container, f):
    if isinstance(container, (list, str)):
        return [f(v) for v in container]
    if isinstance(container, dict):
        return [f(k, v) for k, v in container.items()]
    raise PErr('not a string, list or dict')


def b_filter(container, f):
    if isinstance(container, list):
        return list(filter(f, container))
    raise PErr('not a list')


def b_reduce(container, f):
    try:
        iter(container)
    except TypeError:
        raise PErr('not an Iterable')
    return functools.reduce(f, container)


def b_round(v, nd=None):
    return LDec(str(round(v, int(nd) if nd is not None else None)))


def b_floor(*a):
    return LDec(str(math.floor(*a)))


def b_ceil(*a):
    return LDec(str(math.ceil(*a)))


def b_abs(v):
    return LDec(abs(v))


def b_push(arr, v):
    check_size(arr)
    return arr.append(v)


def b_insert(arr, i, v):
    check_size(arr)
    return arr.insert(int(i), v)


def b_remove(container, v):
    if isinstance(container, list):
        if v in container:
            container.remove(v)
    else:
        if v in container:
            del container[v]


def b_pop(arr, i=None):
    try:
        return arr.pop(int(i)) if i is not None else arr.pop()
    except IndexError as e:
        raise PErr(str(e))


def b_sorted(container, key=None, reverse=False):
    if isinstance(container, dict):
        if callable(key):
            return dict(sorted(container.items(), key=lambda p: key(p[0], p[1]), reverse=reverse))
        return dict(sorted(container.items(), key=key, reverse=reverse))
    return list(sorted(container, key=key, reverse=reverse))


def b_reversed(container):
    if isinstance(container, str):
        return ''.join(reversed(container))
    return list(reversed(container))


def b_enumerate(container):
    return list(enumerate(container))


def b_index_of(container, value):
    try:
        return container.index(value)
    except ValueError:
        return None


def excluded(*a):
    raise RuntimeError('rand/shuffle are outside R2 (C19)')


BUILTINS = {
    'len': len, 'int': b_int, 'float': b_float, 'str': str, 'dict': b_dict, 'list': b_list,
    'startswith': str.startswith, 'endswith': str.endswith, 'lower': str.lower, 'upper': str.upper, 'strip': str.strip, 'replace': b_replace,
    'match': b_match, 'match_groups': b_match_groups, 'match_all': b_match_all,
    'pretty': b_pretty, 'keys': b_keys, 'values': b_values, 'items': b_items, 'sum': b_sum, 'get': b_get,
    '__getitem__': b_getitem, '__delitem__': b_delitem, '__setitem__': b_setitem, '__setitem_with_op__': b_setitem_with_op,
    'map': b_map, 'filter': b_filter, 'reduce': b_reduce, 'join': b_join, 'split': b_split,
    'round': b_round, 'floor': b_floor, 'ceil': b_ceil, 'abs': b_abs, 'min': min, 'max': max, 'rand': excluded,
    'push': b_push, 'pop': b_pop, 'insert': b_insert, 'remove': b_remove,
    'sorted': b_sorted, 'reversed': b_reversed, 'enumerate': b_enumerate, 'shuffle': excluded, 'index_of': b_index_of,
}


# ----------------------------------------------------------------------------- machine
class Machine:
    def __init__(self, names, max_ops=100, builtins=None):
        self.scopes = [dict(builtins if builtins is not None else BUILTINS), names]
        self.ops = 0
        self.max_ops = max_ops
        self.last_statement = None

    def lookup(self, name):
        for sc in reversed(self.scopes):
            if name in sc:
                return sc[name]
        raise KeyError(name)

    def ev(self, t):
        self.ops += 1
        if self.ops >= self.max_ops:
            raise OpsLimit('Ops execution limit exceeded: %s' % self.max_ops)
        k = t[0]
        if k == 'Value':
            v = t[1]
            return LDec(v) if type(v) is Decimal else v
        if k == 'Name':
            try:
                return self.lookup(t[1])
            except KeyError:
                raise PErr('Undefined variable %s' % t[1])
        if k == 'Code':
            res = None
            for line in t[1]:
                self.last_statement = line
                res = self.ev(line)
            return res
        if k == 'Bin':
            op = t[1]
            a = self.ev(t[2])
            if op == 'and':
                return a and self.ev(t[3])
            if op == 'or':
                return a or self.ev(t[3])
            b = self.ev(t[3])
            if op == '+':
                if isinstance(a, str) and not isinstance(b, str):
                    b = str(b)
                return a + b
            if op == '-':
                return a - b
            if op == '*':
                return multiply(a, b)
            if op == '**':
                return Decimal(a) ** Decimal(b)
            if op == '/':
                return a / b
            if op == '==':
                return a == b
            if op == '!=':
                return a != b
            if op == '>':
                return a > b
            if op == '<':
                return a < b
            if op == '>=':
                return a >= b
            if op == '<=':
                return a <= b
            if op == 'in':
                return a in b
            if op == 'not in':
                return a not in b
            raise PErr('Unsupported binary operation')
        if k == 'Unary':
            a = self.ev(t[2])
            return -a if t[1] == '-' else (not a)
        if k == 'If':
            c = self.ev(t[1])
            return self.ev(t[2]) if c else self.ev(t[3])
        if k == 'Assign':
            v = self.ev(t[2])
            self.scopes[-1][t[1]] = copy.deepcopy(v)
            return None
        if k == 'Short':
            v = copy.deepcopy(self.ev(t[3]))
            try:
                cur = self.lookup(t[1])
            except KeyError:
                raise PErr('Undefined variable %s' % t[1])
            op = t[2]
            if op == '+=':
                cur += v
            elif op == '-=':
                cur -= v
            elif op == '*=':
                cur = multiply(cur, v)
            elif op == '/=':
                cur /= v
            else:
                raise PErr('Unsupported short op')
            self.scopes[-1][t[1]] = cur
            return None
        if k == 'Slice':
            a, b, c = self.ev(t[1]), None, None
            a = int(a) if a is not None else None
            b = self.ev(t[2])
            b = int(b) if b is not None else None
            c = self.ev(t[3])
            c = int(c) if c is not None else None
            return slice(a, b, c)
        if k == 'Call':
            args = [self.ev(a) for a in t[2]]
            try:
                f = self.lookup(t[1])
            except KeyError:
                raise PErr('Undefined function %s' % t[1])
            return f(*args)
        if k == 'Dict':
            d = {}
            for kk, vv in t[1]:
                key = str(self.ev(kk))
                d[key] = self.ev(vv)
            return d
        if k == 'Lambda':
            return Lambda([p[1] for p in t[1]], t[2], self)
        raise PErr('unknown node %s' % k)


def run(tree, names, max_ops=100, ast_names=None, builtins=None):
    """-> (outcome, machine).  ast_names: {name: Lambda tree} evaluated first (each costs its node evaluations)."""
    m = Machine(names, max_ops, builtins)
    try:
        if ast_names:
            for k, v in ast_names.items():
                m.scopes[-1][k] = m.ev(v)
        return ('value', m.ev(tree)), m
    except OpsLimit as e:
        return ('ops', str(e)), m
    except PErr as e:
        return ('perr', str(e)), m
    except RecursionError:
        return ('recursion', ''), m
    except Exception as e:
        return ('other', type(e).__name__), m
