"""R3 - exact-rational oracle for C08.  Integer-only arithmetic on fractions.Fraction; the rounding to 28
significant digits (half-even) is done with integer division, independently of the `decimal` module
(which is used only as the container in which the reference lexer hands over a literal's exact value).
Evaluates neutral trees produced by lib/refparser.py."""
from fractions import Fraction

PREC = 28


class RefError(Exception):
    """the reference semantics prescribe an error (e.g. division by zero)"""


class Unsupported(Exception):
    """outside the fragment R3 covers"""


def round_half_even_int(fr):
    """nearest integer to the Fraction, ties to even (integer-only)"""
    n, d = fr.numerator, fr.denominator
    q, r = divmod(n, d)          # floor division, 0 <= r < d
    twice = 2 * r
    if twice > d or (twice == d and q % 2 == 1):
        q += 1
    return q


def round_sig(fr, prec=PREC):
    """correct rounding (half-even) of a Fraction to `prec` significant decimal digits"""
    if fr == 0:
        return fr
    a = abs(fr)
    # find e with 10^(prec-1) <= a / 10^e < 10^prec
    n, d = a.numerator, a.denominator
    e = len(str(n)) - len(str(d)) - prec
    while a / Fraction(10) ** e >= 10 ** prec:
        e += 1
    while a / Fraction(10) ** e < 10 ** (prec - 1):
        e -= 1
    q = round_half_even_int(a / Fraction(10) ** e)
    r = q * Fraction(10) ** e
    return r if fr > 0 else -r


def round_places(fr, places):
    """half-even to `places` decimal places"""
    scale = Fraction(10) ** places
    return Fraction(round_half_even_int(fr * scale)) / scale


def floor(fr):
    return fr.numerator // fr.denominator


def ceil(fr):
    return -((-fr.numerator) // fr.denominator)


def trunc(fr):
    return floor(fr) if fr >= 0 else ceil(fr)


class Maybe:
    """value that the implementation may also refuse (result needs more than 28 digits in a quantize)"""

    def __init__(self, v):
        self.v = v


def evaluate(t):
    """neutral tree -> Fraction | bool | list | Maybe ; raises RefError / Unsupported"""
    k = t[0]
    if k == 'Code':
        if len(t[1]) != 1:
            raise Unsupported('multi-line')
        return evaluate(t[1][0])
    if k == 'Value':
        v = t[1]
        if isinstance(v, bool) or v is None or isinstance(v, str):
            raise Unsupported('non-numeric literal')
        return Fraction(v)       # exact (Decimal -> ratio of integers)
    if k == 'Unary' and t[1] == '-':
        return round_sig(-num(evaluate(t[2])))
    if k == 'Bin':
        op = t[1]
        a, b = num(evaluate(t[2])), num(evaluate(t[3]))
        if op == '+':
            return round_sig(a + b)
        if op == '-':
            return round_sig(a - b)
        if op == '*':
            return round_sig(a * b)
        if op == '/':
            if b == 0:
                raise RefError('division by zero')
            return round_sig(a / b)
        if op == '==':
            return a == b
        if op == '!=':
            return a != b
        if op == '<':
            return a < b
        if op == '>':
            return a > b
        if op == '<=':
            return a <= b
        if op == '>=':
            return a >= b
        raise Unsupported(op)
    if k == 'Call':
        name, args = t[1], t[2]
        if name == 'list':
            return [num(evaluate(a)) for a in args]
        vals = [evaluate(a) for a in args]
        if name == 'abs':
            return round_sig(abs(num(vals[0])))
        if name == 'floor':
            return Fraction(floor(num(vals[0])))
        if name == 'ceil':
            return Fraction(ceil(num(vals[0])))
        if name == 'int':
            return Fraction(trunc(num(vals[0])))
        if name == 'round':
            x = num(vals[0])
            if len(vals) == 1:
                return Fraction(round_half_even_int(x))
            places = trunc(num(vals[1]))
            r = round_places(x, places)
            # quantize refuses results whose coefficient needs more than 28 digits
            coef = abs(r * Fraction(10) ** places)
            if coef.denominator != 1:
                raise Unsupported('non-integral coefficient')
            if len(str(coef.numerator)) > PREC:
                return Maybe(r)
            return r
        if name == 'sum':
            if isinstance(vals[0], list):
                acc = Fraction(0)
                for x in vals[0]:
                    acc = round_sig(acc + x)
                return acc
            return vals[0]
        if name in ('min', 'max'):
            xs = vals[0] if (len(vals) == 1 and isinstance(vals[0], list)) else [num(v) for v in vals]
            if not xs:
                raise RefError('empty')
            # first extreme element, as Python's min/max
            best = xs[0]
            for x in xs[1:]:
                if (name == 'min' and x < best) or (name == 'max' and x > best):
                    best = x
            return best
        raise Unsupported(name)
    raise Unsupported(k)


def num(v):
    if isinstance(v, Maybe):
        raise Unsupported('maybe-value used as operand')
    if isinstance(v, (bool, list)):
        raise Unsupported('non-number operand')
    return v
