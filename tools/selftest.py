#!/venv/bin/python
"""setup_cmd: nothing to build (standard library only); verify the pieces the checks need are present."""
import os
import sys
V = os.path.dirname(os.path.dirname(os.path.abspath(__file__)))
sys.path.insert(0, V)
from lib import core, sandbox, refparser, reflex, gram, monitors, heap, treeconv  # noqa
import regex  # noqa  (the package's one third-party dependency, present in /venv)
base = sandbox.make()
try:
    sq = sandbox.activate(base)
    P = sq.SqParser()
    assert P.eval('1 + 2') == 3
finally:
    sandbox.remove(base)
os.makedirs(os.path.join(V, 'evidence'), exist_ok=True)
os.makedirs(os.path.join(V, 'replays'), exist_ok=True)
print('selftest ok')
