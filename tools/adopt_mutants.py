#!/usr/bin/env python3
"""Verify the sub-agents' changes in seeded/_inbox/<Cxx>/<k>/ and adopt them as seeded/<Cxx>-<k>/.

For each: scratch copy of /repo (never /repo itself) -> demo on the clean copy must exit 0 -> apply patch -> the repository's
test suite must pass -> demo must exit 1 -> run the property's own check (quick tier) against the scratch copy.
Writes meta.json (what it breaks, what it needs, what was run, what the check said)."""
import json
import os
import re
import shutil
import subprocess
import sys
import tempfile

V = os.path.dirname(os.path.dirname(os.path.abspath(__file__)))
INBOX = os.path.join(V, 'seeded', '_inbox')
only = sys.argv[1:]


def sh(cmd, cwd=None, env=None, timeout=900):
    p = subprocess.run(cmd, shell=True, cwd=cwd, env=env, capture_output=True, text=True, timeout=timeout)
    return p.returncode, (p.stdout + p.stderr)


def run_check(cid, repo, tier='quick'):
    env = dict(os.environ, VERIF_REPO=repo, VERIF_TIER=tier, VERIF_STOP_ON_VIOLATION='1')
    rc, out = sh('%s/check %s --tier %s' % (V, cid, tier), cwd=V, env=env, timeout=3600)
    whats = sorted(set(re.findall(r'^  what: (.*)$', out, re.M)))[:4]
    return rc, whats, [l for l in out.splitlines() if l.startswith(('INCONCLUSIVE', cid + ':'))][-1:]


for prop in sorted(os.listdir(INBOX)):
    for k in sorted(os.listdir(os.path.join(INBOX, prop))):
        mid = '%s-%s' % (prop, k)
        if only and mid not in only and prop not in only:
            continue
        src = os.path.join(INBOX, prop, k)
        if not os.path.exists(os.path.join(src, 'patch.diff')):
            continue
        tmp = tempfile.mkdtemp(prefix='adopt-')
        try:
            sh('rsync -a --exclude .git --exclude __pycache__ /repo/ %s/' % tmp)
            sh('git init -q .', cwd=tmp)
            env = dict(os.environ, PYTHONPATH=tmp)
            shutil.copytree(src, os.path.join(tmp, 'mutants', k))
            demo = 'mutants/%s/demo.py' % k
            rc_clean, out_clean = sh('/venv/bin/python %s' % demo, cwd=tmp, env=env, timeout=300)
            rc_apply, out_apply = sh('git apply --whitespace=nowarn mutants/%s/patch.diff' % k, cwd=tmp)
            rc_tests, out_tests = sh('/venv/bin/python -m pytest -q -p no:cacheprovider tests 2>&1 | tail -1', cwd=tmp, env=env)
            rc_demo, out_demo = sh('/venv/bin/python %s' % demo, cwd=tmp, env=env, timeout=300)
            tests_ok = rc_apply == 0 and ' passed' in out_tests and 'failed' not in out_tests and 'error' not in out_tests.lower()
            confirmed = rc_clean == 0 and rc_apply == 0 and tests_ok and rc_demo == 1
            rc_check, whats, last = (None, [], [])
            if confirmed:
                rc_check, whats, last = run_check(prop, tmp)
            notes = open(os.path.join(src, 'notes.md')).read() if os.path.exists(os.path.join(src, 'notes.md')) else ''
            meta = {
                'id': mid, 'breaks_property': prop, 'origin': 'fresh sub-agent given only the property text and a scratch worktree',
                'needs_to_manifest': notes.strip()[:1500],
                'confirmed': confirmed,
                'what_was_run': {'demo_on_clean_tree_exit': rc_clean, 'patch_applies': rc_apply == 0, 'test_suite_with_patch': out_tests.strip()[-80:],
                                 'demo_with_patch_exit': rc_demo, 'demo_output_with_patch': out_demo.strip()[-300:]},
                'own_check_quick': {'exit': rc_check, 'violations': whats, 'summary': last},
                'caught_by_own_check': rc_check == 1,
            }
            dst = os.path.join(V, 'seeded', mid)
            if confirmed:
                os.makedirs(dst, exist_ok=True)
                for f in ('patch.diff', 'demo.py', 'notes.md'):
                    if os.path.exists(os.path.join(src, f)):
                        shutil.copy(os.path.join(src, f), dst)
                json.dump(meta, open(os.path.join(dst, 'meta.json'), 'w'), indent=1)
            print(mid, 'confirmed' if confirmed else 'NOT CONFIRMED (%s %s %s %s)' % (rc_clean, rc_apply, out_tests.strip()[-40:], rc_demo), '| own check exit', rc_check, whats[:1], flush=True)
        finally:
            shutil.rmtree(tmp, ignore_errors=True)
