#!/usr/bin/env python3
"""Re-run the property's own quick check against every adopted seeded change (scratch copy of /repo + patch) and write seeded/STATUS.json.
usage: tools/recheck_seeded.py [ids...]"""
import json
import os
import re
import shutil
import subprocess
import sys
import tempfile
import time

V = os.path.dirname(os.path.dirname(os.path.abspath(__file__)))
S = os.path.join(V, 'seeded')
only = sys.argv[1:]
status_path = os.path.join(S, 'STATUS.json')
status = json.load(open(status_path)) if os.path.exists(status_path) else {}
for mid in sorted(os.listdir(S)):
    d = os.path.join(S, mid)
    if not os.path.isdir(d) or not os.path.exists(os.path.join(d, 'patch.diff')) or (only and mid not in only):
        continue
    prop = mid.split('-')[0]
    tmp = tempfile.mkdtemp(prefix='recheck-')
    try:
        subprocess.run('rsync -a --exclude .git --exclude __pycache__ /repo/ %s/ && cd %s && git init -q . && git apply --whitespace=nowarn %s/patch.diff' % (tmp, tmp, d),
                       shell=True, check=True, capture_output=True)
        t0 = time.time()
        p = subprocess.run('%s/check %s --tier quick' % (V, prop), shell=True, cwd=V, env=dict(os.environ, VERIF_REPO=tmp, VERIF_STOP_ON_VIOLATION='1'), capture_output=True, text=True, timeout=3600)
        whats = sorted(set(re.findall(r'^  what: (.*)$', p.stdout, re.M)))[:3]
        status[mid] = {'own_check': prop, 'exit': p.returncode, 'caught': p.returncode == 1, 'violations': whats, 'wall_s': round(time.time() - t0, 1)}
        try:
            meta = json.load(open(os.path.join(d, 'meta.json')))
        except Exception:
            meta = {}
        expected_miss = bool(meta.get('not_caught_by_own_check'))
        status[mid]['documented_as_out_of_reach'] = expected_miss
        print(mid, 'caught' if p.returncode == 1 else ('not caught, as documented in meta.json (%s)' % meta.get('why_not', '')[:80] if expected_miss else 'NOT CAUGHT (exit %d)' % p.returncode), whats[:1], flush=True)
    except Exception as e:
        status[mid] = {'own_check': prop, 'error': str(e)[:200]}
        print(mid, 'ERROR', e, flush=True)
    finally:
        shutil.rmtree(tmp, ignore_errors=True)
    json.dump(status, open(status_path, 'w'), indent=1, sort_keys=True)
