#!/usr/bin/env python3
"""Line coverage of the package (statements inside functions) under the first N cases of one shard of a check: usage tools/linecov.py <ID> <N>.
A development aid: it told which builtins and optional arguments the type-directed generator G2 never exercised (9.5f)."""
import sys, os, threading
sys.path.insert(0,'/verif')
from lib import sandbox, core
b=sandbox.make(); sandbox.activate(b)
import smartquery
pkg=os.path.dirname(smartquery.__file__)
hit={}
def tracer(frame, event, arg):
    fn=frame.f_code.co_filename
    if not fn.startswith(pkg) or '/ply/' in fn: return None
    def local(frame, event, arg):
        if event=='line': hit.setdefault(fn,set()).add(frame.f_lineno)
        return local
    hit.setdefault(fn,set()).add(frame.f_lineno)
    return local
mod=core.load_check(sys.argv[1])
ctx=core.Ctx(sys.argv[1],0,16,'quick',0); ctx.sandbox_dir=b
mod.setup(ctx)
sys.settrace(tracer)
n=0
for case in mod.cases(ctx):
    if case[0] in ('cgf','repo-tests'): continue
    try: mod.run_case(case, ctx)
    except BaseException as e: pass
    n+=1
    if n>=int(sys.argv[2]): break
sys.settrace(None)
import ast
for f in ('functions.py','ast_ops.py','scoped_dict.py','sq_parser.py','rules.py','lexer.py'):
    path=os.path.join(pkg,f); src=open(path).read().split('\n')
    tree=ast.parse('\n'.join(src))
    stmts=set()
    for node in ast.walk(tree):
        if isinstance(node, ast.stmt) and not isinstance(node,(ast.FunctionDef,ast.ClassDef,ast.Import,ast.ImportFrom)):
            stmts.add(node.lineno)
    # module-level statements executed at import are not traced here: consider only those inside functions
    infn=set()
    for node in ast.walk(tree):
        if isinstance(node,(ast.FunctionDef,ast.Lambda)):
            for sub in ast.walk(node):
                if isinstance(sub, ast.stmt) and sub is not node: infn.add(sub.lineno)
    miss=sorted((stmts&infn)-hit.get(path,set()))
    print(f, 'unexecuted statements in functions:', len(miss))
    for l in miss: print('   %d: %s'%(l, src[l-1].strip()[:110]))
sandbox.remove(b)
