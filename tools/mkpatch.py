#!/usr/bin/env python3
"""tools/mkpatch.py <repo-relative file> <old> <new> [<file> <old> <new> ...]  -> unified diff on stdout (against /repo working tree)"""
import difflib
import sys
a = sys.argv[1:]
out = []
for i in range(0, len(a), 3):
    f, old, new = a[i], a[i + 1].encode().decode('unicode_escape'), a[i + 2].encode().decode('unicode_escape')
    s = open('/repo/' + f).read()
    assert s.count(old) == 1, (f, old, s.count(old))
    t = s.replace(old, new)
    out += list(difflib.unified_diff(s.splitlines(True), t.splitlines(True), 'a/' + f, 'b/' + f))
sys.stdout.write(''.join(out))
