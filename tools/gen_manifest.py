#!/usr/bin/env python3
"""Regenerate /verif/MANIFEST.json from the check modules that exist (checks/cNN.py) and properties.jsonl.
A property without a check module (or listed in WITHDRAWN) goes to not_applicable."""
import ast
import json
import os
import sys

V = os.path.dirname(os.path.dirname(os.path.abspath(__file__)))
props = [json.loads(l) for l in open(os.path.join(V, 'properties.jsonl'))]
WITHDRAWN = {}   # id -> reason


def consts(path):
    out = {}
    tree = ast.parse(open(path).read())
    for n in tree.body:
        if isinstance(n, ast.Assign) and len(n.targets) == 1 and isinstance(n.targets[0], ast.Name):
            try:
                out[n.targets[0].id] = ast.literal_eval(n.value)
            except Exception:
                pass
    return out


checks, na = [], []
for p in props:
    pid = p['id']
    path = os.path.join(V, 'checks', pid.lower() + '.py')
    if pid in WITHDRAWN or not os.path.exists(path):
        na.append({'property_id': pid, 'reason': WITHDRAWN.get(pid, 'check not built yet (designed in DESIGN.md §4-%s)' % pid)})
        continue
    c = consts(path)
    checks.append({
        'property_id': pid,
        'quick_cmd': './check %s --tier quick' % pid,
        'thorough_cmd': './check %s --tier thorough' % pid,
        'evidence_file': 'evidence/%s.json' % pid,
        'replay_cmd_template': './check %s --replay {path}' % pid,
        'engine': 'runtime-monitor',
        'level_claimed': {
            'category': 'exploration',
            'text': c.get('LEVEL_TEXT') or ('Runtime monitoring: the real code is driven by a generated hostile workload while monitors with an '
                                            'executable oracle watch every execution; the claim is "held on the executions observed" (counts, '
                                            'coverage tables and samples are in the evidence file), not a proof. ' + c.get('RULE', '')[:300]),
            'design_ref': 'DESIGN.md §4-%s' % pid,
        },
        'level_note': c.get('LEVEL_NOTE') or '; '.join(c.get('ASSUMPTIONS', []))[:900],
        'technique': c.get('TECHNIQUE') or 'runtime monitor + generated workload',
    })
m = {
    'version': 1,
    'setup_cmd': '/venv/bin/python tools/selftest.py',
    'hooks': {
        'guard': 'SMARTQUERY_VERIF',
        'enable': 'no source hooks exist: every monitor is attached from outside (wrappers on Op subclasses, ScopedDict, parser.lex.token, sys.addaudithook, '
                  'recording mappings) to a scratch copy of /repo/smartquery made by each check; the harness sets SMARTQUERY_VERIF=1 in its workers',
        'baseline_off_cmd': 'cd /repo && /venv/bin/python -m pytest -ra -q -p no:cacheprovider --timeout=900 --continue-on-collection-errors',
        'source_commits': [],
        'add_only': True,
    },
    'engines': [{'name': 'runtime-monitor', 'path': 'lib/', 'serves_properties': [c['property_id'] for c in checks],
                 'kind_free_text': 'python harness: sandbox copy of the package, sharded subprocess workers, monitors (lib/monitors.py, lib/heap.py), '
                                   'reference models (lib/refparser.py, lib/reflex.py, lib/refeval.py ...), generators (lib/gram.py ...), verdict/evidence (lib/core.py)'}],
    'checks': checks,
    'notes': 'Every check: ./check <ID> [--tier quick|thorough] [--replay PATH]; VERIF_SEED selects the workload seed; exit 0 held / 1 violated / 2 inconclusive. '
             'known_findings.txt lists known findings (by mechanism) and repaired defects.',
    'not_applicable': na,
}
json.dump(m, open(os.path.join(V, 'MANIFEST.json'), 'w'), indent=1)
print('checks:', [c['property_id'] for c in checks])
print('not claimed:', [n['property_id'] for n in na])
