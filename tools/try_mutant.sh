#!/bin/bash
# usage: tools/try_mutant.sh <patch.diff | -e 'sed-expr file'> <check id>... ; env TIER=quick|thorough, VERIF_SEED
# Applies a patch to a scratch copy of /repo (never to /repo), runs the baseline tests and the given checks against it.
set -u
patch="$1"; shift
tmp=$(mktemp -d /tmp/mutant-XXXXXX)
trap 'rm -rf "$tmp"' EXIT
rsync -a --exclude .git --exclude __pycache__ /repo/ "$tmp/"
( cd "$tmp" && git init -q . 2>/dev/null && git apply --whitespace=nowarn "$patch" ) || { echo "PATCH DOES NOT APPLY"; exit 3; }
if [ "${SKIPTESTS:-0}" != 1 ]; then
  ( cd "$tmp" && PYTHONPATH="$tmp" /venv/bin/python -m pytest -q -p no:cacheprovider -x tests 2>&1 | tail -1 )
fi
for c in "$@"; do
  VERIF_REPO="$tmp" /verif/check "$c" --tier "${TIER:-quick}" 2>&1 | grep -E "^(VIOLATION|KNOWN|INCONCLUSIVE|C[0-9]+:)|what:" | cut -c1-260 | head -${LINES_MAX:-8}
done
