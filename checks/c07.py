"""C07 - evaluation agrees with the reference semantics on every well-typed program.

Monitors: call-boundary comparison of SqParser.eval on the real code against R2 (lib/refeval.py) run on the
reference parser's tree of the same text: outcome class, value (deep, type-aware), host names afterwards;
M1 counts node evaluations independently, and the three counts (M1, state.ops_evaluated, R2) must be equal.
"""
import copy
import random
from decimal import Decimal

from lib import gen2, monitors, reflex, refparser, refeval

import re

ID = 'C07'
TECHNIQUE = 'online reference-model monitor: real evaluator vs reference evaluator R2 (outcome, value, names, operation count) on type-directed programs'
FN_REPR = re.compile(r"<function .*? at 0x[0-9a-f]+>|<[\w.]*Lambda object at 0x[0-9a-f]+>|<built-in (?:function|method) \w+(?: of [^<>]*)?>|<method '\w+' of '\w+' objects>|<class '[\w.]+'>")
RULE = 'programs of 1-8 statements from the type-directed generator G2 (lib/gen2.py): every operator on the type combinations the typing admits, all statement forms, slices with negative/fractional bounds and steps, lambdas (dynamic scoping, extra/missing arguments, parameters shadowing host names and builtins) driven by map/filter/reduce/sorted and host callbacks hm/try_, every deterministic builtin, None as a first-class value (bound literally, by the host, by misses of index_of/get/match), equal-but-differently-spelled number literals, aliasing probes, host-supplied initial names (ints alongside decimals), ast_names helpers with multi-statement bodies; ~15 % of programs violate exactly one fact (missing key, index out of range, pop of empty, undefined name/function, too few lambda arguments, compound assignment to an undefined name / missing key, one ill-typed operation); budgets: ample, the exact need T, T+1, T-1, the default 100; separators ; \\n \\r\\n, end-of-line comments; evaluated on a plain parser, as the SECOND evaluation of the same text on a caching parser, after an arbitrary earlier call, or with a UserDict / ChainMap / defaultdict / __missing__ names mapping. Non-trivial = the program ran under both evaluators and outcome, value, names and the three operation counts were compared; distinct = distinct (source, budget).'
RULE += ' Alias probes also bind and store the host tuples handed out by enumerate() and items() and then mutate through one side.'
ASSUMPTIONS = ['R2 (lib/refeval.py) is the reading of "the reference semantics": Python semantics over decimal.Decimal under the default context, string-on-the-left + coercion, '
               'decimal->int index casts, key->str dict casts, dynamically scoped positional lambdas, deep copy on assignment, statements yield None, one operation per node evaluation',
               'R2 is run on R1\'s tree of the rendered text, never on the tree the generator meant to write',
               'rand and shuffle are excluded (C19); pretty is generated on integers, strings, lists and dicts only; regex patterns from a subset on which re and regex agree',
               'value comparison is type-aware: bool != number, int != Decimal, list != tuple, Decimals by (sign, digits, exponent) and by "literal-like subclass or not"']
FINDINGS = {
    'setitem-statement-value': 'an index assignment (c[k] = e, c[k] op= e) as the last statement makes eval return the assigned operand instead of None',
}
CASE_DEADLINE = 20


class MissingNames(dict):
    def __missing__(self, key):
        return 0


def setup(ctx):
    from smartquery import SqParser
    from smartquery import functions
    ctx.P0 = ctx.P = SqParser()
    ctx.PC = SqParser(parse_cache={})
    ctx.table = dict(functions.FUNCTIONS)
    ctx.name_of = {id(v): k for k, v in ctx.table.items()}
    ctx.M1 = monitors.NodeMonitor()
    ctx.state = [None]

    def on_enter(node, state):
        ctx.state[0] = state
    ctx.M1.on_enter = on_enter
    ctx.ref_names = {id(v): k for k, v in refeval.BUILTINS.items()}


def cases(ctx):
    rnd = ctx.rnd
    if ctx.shard == 0:
        for src in ['d = {"a": 1}\nd["b"] = 2', 'l = [1, 2]\nl[0] += 5', 'x = 1\nx += 2', '"n=" + 1.50', '[1, 2, 3][1.9]', '{1: "a", 1.0: "b", True: "c"}', 'f = (a, b) => a\nf(1)',
                    'f = (a, b) => b\nf(1)', 'g = v => v + later\nlater = 5\ng(1)', 'len = 3\nlen', 'h = len => len + 1\nh(2)', '"abc"[::-1]', '[3, 1, 2] | sorted | reversed',
                    'str([1.50, "a", None, 1 + 1])', 'pretty(1234567)', 'sum([])', '7 / 2', '2 ** 0.5', '1 / 3 * 3', 'x = [1]\ny = x\npush(y, 2)\nx', 'del h_dict["a"]\nh_dict']:
            yield ('src', src, 10 ** 5)
    for _ in range(ctx.scale(4000, 60000)):
        yield ('gen', rnd.getrandbits(48))


def same(ctx, a, b):
    """a: implementation value, b: reference value"""
    if hasattr(a, 'verif_tag') or hasattr(b, 'verif_tag'):
        # opaque host objects (possibly deep copies of each other): same class, same tag; their own __eq__ is not consulted
        return type(a) is type(b) and getattr(a, 'verif_tag', None) == getattr(b, 'verif_tag', None)
    if a is None or b is None:
        return a is None and b is None
    if isinstance(a, bool) or isinstance(b, bool):
        return isinstance(a, bool) and isinstance(b, bool) and a == b
    if isinstance(a, Decimal) or isinstance(b, Decimal):
        if not (isinstance(a, Decimal) and isinstance(b, Decimal)):
            return False
        if (type(a) is Decimal) != (type(b) is Decimal):
            return False
        return a.as_tuple() == b.as_tuple()
    if isinstance(a, int) or isinstance(b, int):
        return isinstance(a, int) and isinstance(b, int) and a == b
    if isinstance(a, float) or isinstance(b, float):
        return isinstance(a, float) and isinstance(b, float) and (a == b or (a != a and b != b))
    if isinstance(a, str) or isinstance(b, str):
        if not (isinstance(a, str) and isinstance(b, str)):
            return False
        if a != b and '<' in a and '<' in b:
            # the printed form of a callable (address, implementation name) is not part of the semantics
            return FN_REPR.sub('<fn>', a) == FN_REPR.sub('<fn>', b)
        return a == b
    if isinstance(a, (list, tuple)) or isinstance(b, (list, tuple)):
        return type(a) is type(b) and len(a) == len(b) and all(same(ctx, x, y) for x, y in zip(a, b))
    if isinstance(a, dict) or isinstance(b, dict):
        return isinstance(a, dict) and isinstance(b, dict) and list(a.keys()) == list(b.keys()) and all(same(ctx, a[k], b[k]) for k in a)
    if isinstance(a, slice) and isinstance(b, slice):
        return (a.start, a.stop, a.step) == (b.start, b.stop, b.step)
    if isinstance(b, refeval.Lambda):
        return id(a) in ctx.M1.lambdas
    if id(b) in ctx.ref_names:
        return ctx.name_of.get(id(a)) == ctx.ref_names[id(b)]
    if callable(a) and callable(b):
        return a is b      # a host callable handed to both
    return False


def names_same(ctx, a, b):
    if set(a.keys()) != set(b.keys()):
        return False
    return all(same(ctx, a[k], b[k]) for k in a)


def run_case(case, ctx):
    from smartquery.exceptions import ParserError, OpsExecutionLimitExceededError
    body = None
    if case[0] == 'src':
        src, budget_mode, r = case[1], 'ample', random.Random(1)
        fault = None
    else:
        r = random.Random(case[1])
        lines, env = gen2.gen_program(r, max_lines=8, depth=4)
        sep = r.choice(['\n', '\n', ';', '\r\n', ' ;\n'])
        src = sep.join(l.replace('\n', sep) if sep != ';' else l.replace('\n', ';') for l in lines)
        budget_mode = r.choice(['ample', 'ample', 'ample', 'T', 'T+1', 'T-1', 'default'])
        fault = env.fault
        if sep in ('\n', '\r\n') and r.random() < 0.3:
            # end-of-line comments are layout; they must not change anything
            src = sep.join(l + r.choice(['', '  # note', ' # ) ] "', '#x']) for l in src.split(sep))
        if r.random() < 0.2:
            body = gen2.gen_ast_body(r)
            src = src + sep + r.choice(['af(%s, %s)', 'r_af = af(%s, %s)', '[af(%s, %s), h_num]', 'map([1, 2], v => af(v, %s)) if %s else 0', 'try_(af, %s, %s)']) % (
                r.choice(['1', 'h_num', '2.5']), r.choice(['2', 'h_int', '0']))
    try:
        tree = refparser.ref_parse([(t[0], t[1]) for t in reflex.tokens(src)])
    except (refparser.Reject, reflex.LexError) as e:
        ctx.count('generator_produced_unparsable_text(dropped)')
        ctx.notes.append('unparsable: %s' % src[:200]) if len(ctx.notes) < 5 else None
        return
    names0 = gen2.host_names(r)
    ref_ast = impl_ast = None
    if body is not None:
        try:
            body_tree = refparser.ref_parse([(t[0], t[1]) for t in reflex.tokens(body)])
        except (refparser.Reject, reflex.LexError):
            ctx.count('generator_produced_unparsable_text(dropped)')
            return
        from smartquery.ast_ops import LambdaOp, NameOp
        ref_ast = {'af': ('Lambda', (('Name', 'p0'), ('Name', 'p1')), body_tree)}
        try:
            impl_ast = {'af': LambdaOp(args=[NameOp('p0'), NameOp('p1')], expr=ctx.P.parse(body))}
        except Exception:
            ctx.count('ast_body_rejected_by_implementation(dropped)')
            return
        ctx.count('programs_with_ast_names')
    # reference, unbounded first (to learn T)
    ref_unb, m_unb = refeval.run(tree, copy.deepcopy(names0), 10 ** 9, ref_ast)
    if ref_unb[0] == 'recursion':
        ctx.count('reference_recursion(dropped)')
        return
    T = m_unb.ops
    budget = {'ample': 10 ** 5, 'T': T, 'T+1': T + 1, 'T-1': max(1, T - 1), 'default': None}[budget_mode]
    if case[0] == 'src':
        budget = case[2]
    rn = copy.deepcopy(names0)
    ref, m = refeval.run(tree, rn, budget if budget is not None else 100, ref_ast)
    # implementation: on the plain parser, or as the SECOND evaluation of the same text on a caching parser (the tree has been evaluated before:
    # anything remembered on its nodes must not show), sometimes after an arbitrary earlier call, sometimes with a non-dict names mapping
    mode = r.randrange(13)
    P = ctx.P0
    if mode < 3:
        P = ctx.PC
        try:
            P.eval(src, copy.deepcopy(gen2.host_names(random.Random(r.getrandbits(30)))), impl_ast, 10 ** 5)
        except Exception:
            pass
        ctx.count('second_evaluations_of_a_cached_tree')
    elif mode == 3:
        from lib import gram
        gram.earlier_call(P, r)
        ctx.count('programs_preceded_by_an_arbitrary_earlier_call')
    ctx.P = P
    inn = copy.deepcopy(names0)
    if mode == 4:
        import collections
        inn = collections.UserDict(inn)
        ctx.count('programs_with_a_UserDict_names_mapping')
    elif mode in (10, 11):
        # a names mapping whose subscript never raises KeyError (defaultdict / __missing__): a name is defined iff the mapping CONTAINS it
        import collections
        inn = collections.defaultdict(list, inn) if mode == 10 else MissingNames(inn)
        ctx.count('programs_with_a_names_mapping_defining___missing__')
    elif mode == 12:
        import collections
        inn = collections.ChainMap(inn)
        ctx.count('programs_with_a_ChainMap_names_mapping')
    M1 = ctx.M1
    M1.reset()
    M1.lambdas.clear()
    ctx.state[0] = None
    try:
        v = ctx.P.eval(src, inn, impl_ast, budget) if budget is not None else ctx.P.eval(src, inn, impl_ast)
        got = ('value', v)
    except OpsExecutionLimitExceededError as e:
        got = ('ops', str(e))
    except ParserError as e:
        got = ('perr', str(e))
    except RecursionError:
        ctx.count('implementation_recursion(dropped)')
        return
    except Exception as e:
        got = ('other', type(e).__name__)
    ctx.count('programs_compared')
    ctx.count('outcome_' + ref[0])
    ctx.count('budget_' + budget_mode)
    if fault:
        ctx.cov('faults_injected', fault)
    for k, n in M1.by_kind.items():
        ctx.cov('node_kinds', k)
    ctx.nontriv('%s|%s' % (src, budget))
    detail = {'src': src, 'ast_names_body': body, 'budget': budget, 'expected': (ref[0], repr(ref[1])[:200]), 'got': (got[0], repr(got[1])[:200])}
    what, finding = None, None
    if got[0] != ref[0]:
        what = 'outcome class differs: implementation %s, reference %s' % (got[0], ref[0])
    elif got[0] == 'value' and not same(ctx, got[1], ref[1]):
        what = 'value differs from the reference semantics'
        last = m.last_statement
        if ref[1] is None and last is not None and last[0] == 'Call' and last[1] in ('__setitem__', '__setitem_with_op__') and got[1] is not None \
                and names_same(ctx, dict(inn), rn):
            finding = 'setitem-statement-value'
    elif not names_same(ctx, dict(inn), rn):
        what = 'host names after the call differ from the reference semantics'
        detail['names_impl'] = repr(dict(inn))[:300]
        detail['names_ref'] = repr(rn)[:300]
    if what is None:
        st = ctx.state[0]
        charged = st.ops_evaluated if st is not None else None
        if not (M1.enters == m.ops and (charged is None or charged == m.ops)):
            what = 'operation count differs: node evaluations observed %d, charged %s, reference %d' % (M1.enters, charged, m.ops)
    if what:
        ctx.violation(what, case, finding=finding, detail=detail)
    elif ctx.counters['programs_compared'] % 300 == 1:
        ctx.sample({'src': src, 'budget': budget, 'outcome': ref[0], 'ops': m.ops})


def conclusive(m):
    c = m['counters']
    if c.get('programs_compared', 0) < 5000:
        return 'only %d programs compared' % c.get('programs_compared', 0)
    if c.get('outcome_value', 0) < 0.5 * c['programs_compared']:
        return 'fewer than half of the programs run to completion under the reference (%d of %d)' % (c.get('outcome_value', 0), c['programs_compared'])
    for k in ('outcome_perr', 'outcome_ops'):
        if c.get(k, 0) < 100:
            return '%s = %d' % (k, c.get(k, 0))
    if len(m['cover'].get('node_kinds', ())) < 12:
        return 'node kinds exercised: %s' % sorted(m['cover'].get('node_kinds', ()))
    if c.get('generator_produced_unparsable_text(dropped)', 0) > 0.02 * c['programs_compared']:
        return 'generator produces unparsable text too often'
    return None
