"""C14 - lists and dicts behave like their models under any operation sequence.

Monitor: after every operation of a sequence (each executed through SqParser.eval on a persistent
`names`) the observable result and the contents of the host container are compared with R4, a Python
list / string-keyed dict driven by the same operation.
"""
import copy
import enum
import itertools
import random
from decimal import Decimal

ID = 'C14'
TECHNIQUE = 'online reference-model monitor: list/dict models driven by the same operation sequence, exhaustive to depth 2/3 and random'
RULE = ('operation sequences over one list and one dict held in a persistent names mapping: push, pop, pop(i), insert, remove, read, write, compound write, del, '
        'index_of, len, in, slices / dict write, read, compound write, del, get (with and without default), keys, values, items, len, remove; indices: integers, '
        'decimals (truncation toward zero, both signs), negative, out of range; keys: integer and decimal literals (1 vs 1.0 vs 007), negative, strings, booleans, None. '
        'Exhaustive to depth 2 (quick) / 3 (thorough) over the alphabet from two starting states, random to length 30, and sequences on lists/dicts of 9998-10001 elements. '
        'Each step compares result class+value and full container contents; every write is followed by a read-back. Non-trivial = a step whose result and contents were compared; '
        'distinct = distinct (start state, operation sequence).')
RULE += ' Sequences of the non-inserting dict lookups also run on a host defaultdict; half of the cases use a long-lived caching parser.'
RULE += ' Keys include numbers whose text form carries an exponent (0.0000001, 10 ** 30); dicts built by a literal are read back with the same key (get({k: 5}, k), keys({k: 5})).'
RULE += ' Keys also come from the host as values: a str-Enum member and a str subclass with a text form of their own, a binary float, a wide int, a decimal in exponent form.'
ASSUMPTIONS = ['R4: list index = truncation toward zero of a decimal, negative from the end; dict key = str(key) on literal, write, read, compound write, get and del',
               'for operations the statement does not pin (del of a missing key/index, write or pop(i) at an out-of-range index) the model accepts "raises any Exception or does nothing", '
               'but requires the container unchanged; remove and `in` use the raw key (no cast)',
               'reading a missing key / out-of-range index (also inside a compound write) and pop of an empty list must be ParserError and change nothing']
FINDINGS = {}
CASE_DEADLINE = 30

D = Decimal
IDX = ['0', '1', '2', '-1', '-2', '1.5', '-1.5', '0.9', '-0.9', '2.0', '7', '-7', '3', '-3']
VALS = ['0', '5', '"s"', '[1]', 'None', '{"k": 0}']
KEYS = ['1', '1.0', '007', '-1', '"1"', '"a"', 'True', 'None', '2.50', '"True"', '0',
        # numbers whose text form carries an exponent (str(Decimal) is the documented key): tiny literals, computed powers
        '0.0000001', '10 ** 30', '0.00000025',
        # keys supplied by the host as values: str subclasses with a text form of their own, binary floats, wide ints, decimals in exponent form
        'hk', 'hk2', 'hk3', 'hk4', 'hk5']


class Color(str, enum.Enum):
    """a host key that is a str with a text form of its own: str(Color.RED) is not its str value"""
    RED = 'red'


class Tag(str):
    def __str__(self):
        return 'tag:' + str.__str__(self)


HOST_KEYS = {'hk': Color.RED, 'hk2': Tag('a'), 'hk3': 1.5, 'hk4': 10 ** 30, 'hk5': D('1E+2')}


def lit_value(text):
    """python value of a literal text as the language reads it"""
    if text in HOST_KEYS:
        return HOST_KEYS[text]
    if text == 'None':
        return None
    if text == 'True':
        return True
    if text == 'False':
        return False
    if text.startswith('"'):
        return text[1:-1]
    if text == '[1]':
        return [D(1)]
    if text == '{"k": 0}':
        return {'k': D(0)}
    if text.startswith('-'):
        return -D(text[1:])
    if ' ** ' in text:
        a, b = text.split(' ** ')
        return D(a) ** D(b)
    return D(text)


def list_ops():
    ops = []
    for v in VALS:
        ops.append(('push', v))
        ops.append(('remove', v))
        ops.append(('index_of', v))
        ops.append(('in', v))
    ops += [('pop',), ('len',), ('slice', '1', '3'), ('slice', '-2', ''), ('slice', '', '1.9'), ('slice', '', '0'), ('slice', '0', ''), ('slice', '2', '0'), ('slice', '0', '0'), ('slice', '', '0.5'), ('slice', '-1', '0')]
    for i in IDX:
        ops += [('read', i), ('del', i), ('popi', i)]
        ops.append(('write', i, '5'))
        ops.append(('aug', i, '2'))
    for i in ['0', '1', '-1', '9', '1.7', '-9']:
        ops.append(('insert', i, '7'))
    ops.append(('write', '0', '[1]'))
    for i in ['0', '1', '-1']:
        ops += [('nwrite', i, '"k"', '5'), ('nwrite', i, '0', '5'), ('nread', i, '"k"'), ('nread', i, '0'), ('npush', i)]
    return ops


def dict_ops():
    ops = [('dlen',), ('keys',), ('values',), ('items',)]
    for k in KEYS:
        ops += [('dread', k), ('ddel', k), ('get', k), ('getd', k), ('din', k), ('dremove', k), ('dlit', k), ('dlitk', k)]
        ops.append(('dwrite', k, '5'))
        ops.append(('daug', k, '2'))
    ops.append(('dwrite', '"a"', '[1]'))
    ops.append(('dwrite', '"z"', '"s"'))
    return ops


FMT = {
    'push': 'push(l, {0})', 'remove': 'remove(l, {0})', 'index_of': 'index_of(l, {0})', 'in': '{0} in l', 'pop': 'pop(l)', 'len': 'len(l)',
    'read': 'l[{0}]', 'del': 'del l[{0}]', 'popi': 'l.pop({0})', 'slice': 'l[{0}:{1}]', 'write': 'l[{0}] = {1}', 'aug': 'l[{0}] += {1}',
    'insert': 'insert(l, {0}, {1})', 'nwrite': 'l[{0}][{1}] = {2}', 'nread': 'l[{0}][{1}]', 'npush': 'push(l[{0}], 3)',
    'dlen': 'len(d)', 'keys': 'keys(d)', 'values': 'd | values', 'items': 'items(d)', 'dread': 'd[{0}]', 'ddel': 'del d[{0}]', 'get': 'get(d, {0})',
    'getd': 'get(d, {0}, "dflt")', 'din': '{0} in d', 'dremove': 'remove(d, {0})', 'dwrite': 'd[{0}] = {1}', 'daug': 'd[{0}] += {1}',
    # a dict built by a literal normalises its keys exactly as an index write does
    'dlit': 'get({{{0}: 5, "other": 1}}, {0}, "absent")', 'dlitk': 'keys({{"x": 0, {0}: 5}})',
}


def source(op):
    a = op[1:] + ('', '', '')
    return FMT[op[0]].format(a[0], a[1], a[2])


class PE(Exception):
    """model: must be a ParserError"""


class AnyErrOrNothing(Exception):
    """model: the statement does not pin the outcome; the container must stay unchanged"""


def tr(x):
    return int(x) if isinstance(x, D) else x


def model(op, l, d):
    """apply op to the model containers; -> result ; raises PE / AnyErrOrNothing / OtherErr"""
    k = op[0]
    a = [lit_value(x) if x != '' else None for x in op[1:]]
    if k == 'push':
        if len(l) >= 10000:
            raise PE()
        l.append(a[0]); return None
    if k == 'remove':
        if a[0] in l:
            l.remove(a[0])
        return None
    if k == 'index_of':
        return l.index(a[0]) if a[0] in l else None
    if k == 'in':
        return a[0] in l
    if k == 'pop':
        if not l:
            raise PE()
        return l.pop()
    if k == 'len':
        return len(l)
    if k == 'slice':
        return l[slice(tr(a[0]) if a[0] is not None else None, tr(a[1]) if a[1] is not None else None)]
    if k == 'read':
        i = tr(a[0])
        if not -len(l) <= i < len(l):
            raise PE()
        return l[i]
    if k == 'del':
        i = tr(a[0])
        if not -len(l) <= i < len(l):
            raise AnyErrOrNothing()
        del l[i]; return None
    if k == 'popi':
        i = tr(a[0])
        if not l:
            raise PE()
        if not -len(l) <= i < len(l):
            raise AnyErrOrNothing()
        return l.pop(i)
    if k == 'write':
        if len(l) >= 10000:
            raise PE()
        i = tr(a[0])
        if not -len(l) <= i < len(l):
            raise AnyErrOrNothing()
        l[i] = copy.deepcopy(a[1]); return 'ASSIGNED'
    if k == 'aug':
        if len(l) >= 10000:
            raise PE()
        i = tr(a[0])
        if not -len(l) <= i < len(l):
            raise PE()
        try:
            new = l[i] + a[1]
        except Exception:
            raise AnyErrOrNothing()
        l[i] = new; return 'ASSIGNED'
    if k == 'insert':
        if len(l) >= 10000:
            raise PE()
        l.insert(tr(a[0]), a[1]); return None
    if k in ('nwrite', 'nread', 'npush'):
        i = tr(a[0])
        if not -len(l) <= i < len(l):
            raise PE()
        e = l[i]
        if k == 'npush':
            if not isinstance(e, list):
                raise AnyErrOrNothing()
            e.append(D(3)); return None
        key = a[1]
        if isinstance(e, dict):
            key = keystr(key)
            if k == 'nread':
                if key not in e:
                    raise PE()
                return e[key]
            e[key] = a[2]; return 'NESTED'
        if isinstance(e, list) and isinstance(key, D):
            j = tr(key)
            if not -len(e) <= j < len(e):
                if k == 'nread':
                    raise PE()
                raise AnyErrOrNothing()
            if k == 'nread':
                return e[j]
            e[j] = a[2]; return 'NESTED'
        raise AnyErrOrNothing()
    # dict
    if k == 'dlen':
        return len(d)
    if k == 'keys':
        return list(d.keys())
    if k == 'values':
        return list(d.values())
    if k == 'items':
        return [tuple(x) for x in d.items()]
    key = keystr(a[0]) if a else None
    if k == 'dlit':
        return D(5)
    if k == 'dlitk':
        return ['x', key] if key != 'x' else ['x']
    if k == 'dread':
        if key not in d:
            raise PE()
        return d[key]
    if k == 'ddel':
        if key not in d:
            raise AnyErrOrNothing()
        del d[key]; return None
    if k == 'get':
        return d.get(key)
    if k == 'getd':
        return d.get(key, 'dflt')
    if k == 'din':
        return isinstance(a[0], str) and a[0] in d
    if k == 'dremove':
        if isinstance(a[0], str) and a[0] in d:
            del d[a[0]]
        return None
    if k == 'dwrite':
        if len(d) >= 10000:
            raise PE()
        d[key] = copy.deepcopy(a[1]); return 'ASSIGNED'
    if k == 'daug':
        if len(d) >= 10000:
            raise PE()
        if key not in d:
            raise PE()
        try:
            new = d[key] + a[1]
        except Exception:
            raise AnyErrOrNothing()
        d[key] = new; return 'ASSIGNED'
    raise ValueError(k)


def keystr(v):
    return str(v)


def kind(v):
    if v is None:
        return 'none'
    if isinstance(v, bool):
        return 'bool'
    if isinstance(v, (int, float, D)):
        return 'num'
    if isinstance(v, dict):
        return 'dict'
    return type(v).__name__


def same(a, b):
    if kind(a) != kind(b):
        return False
    if isinstance(a, (list, tuple)):
        return len(a) == len(b) and all(same(x, y) for x, y in zip(a, b))
    if isinstance(a, dict):
        return list(a.keys()) == list(b.keys()) and all(same(dict.__getitem__(a, k), dict.__getitem__(b, k)) for k in a)
    return a == b


STARTS = {'A': ([D(10), D(20), D(30)], {'1': D(10), 'a': D(20)}), 'B': ([], {}), 'C': (['s', [D(1)], None, D(5)], {'True': D(1), '1.0': 's', 'None': [D(1)]})}


def setup(ctx):
    from smartquery import SqParser
    ctx.P0 = SqParser()
    ctx.P1 = SqParser(parse_cache={})      # a long-lived caching parser: the same source text reuses one tree
    ctx.LO, ctx.DO = list_ops(), dict_ops()


def cases(ctx):
    rnd = ctx.rnd
    LO, DO = ctx.LO, ctx.DO
    depth = 2 if ctx.quick else 3
    n = 0
    for start in ('A', 'B'):
        for alphabet in (LO, DO):
            for seq in itertools.product(alphabet, repeat=depth):
                if n % ctx.nshards == ctx.shard:
                    yield ('seq', start, seq)
                n += 1
    for _ in range(ctx.scale(800, 8000)):
        ln = rnd.randint(3, 30)
        alphabet = rnd.choice([LO, DO, LO + DO])
        yield ('seq', rnd.choice('ABC'), tuple(rnd.choice(alphabet) for _ in range(ln)))
    # a host mapping whose own __missing__ inserts (defaultdict): lookups that are documented as non-inserting (get, in, keys, len, del, remove) must
    # behave as on the model; index reads and compound writes (which subscript, and so trigger the host's __missing__) are left out
    safe = [o for o in DO if o[0] in ('get', 'getd', 'din', 'dlen', 'keys', 'values', 'items', 'ddel', 'dremove', 'dwrite')]
    for _ in range(ctx.scale(200, 2000)):
        yield ('ddseq', rnd.choice('AC'), tuple(rnd.choice(safe) for _ in range(rnd.randint(2, 10))))
    for _ in range(ctx.scale(3, 40)):
        size = rnd.choice([9998, 9999, 10000, 10001])
        ln = rnd.randint(3, 8)
        yield ('big', size, tuple(rnd.choice([('push', '5'), ('pop',), ('write', '0', '5'), ('aug', '1', '2'), ('insert', '0', '7'), ('read', '-1'), ('len',), ('del', '0'),
                                              ('dwrite', '"zz"', '5'), ('dwrite', '0', '5'), ('daug', '1', '2'), ('ddel', '0'), ('dlen',), ('dread', '9997'), ('get', '10000')]) for _ in range(ln)))


def run_case(case, ctx):
    from smartquery.exceptions import ParserError
    if case[0] in ('seq', 'ddseq'):
        l0, d0 = STARTS[case[1]]
        seq = case[2]
    else:
        n = case[1]
        l0, d0 = [D(i) for i in range(n)], {str(i): D(i) for i in range(n)}
        seq = case[2]
    ctx.P = ctx.P1 if (hash(repr(case)) & 1) else ctx.P0
    ctx.count('cases_on_caching_parser' if ctx.P is ctx.P1 else 'cases_on_plain_parser')
    names = {'l': copy.deepcopy(l0), 'd': copy.deepcopy(d0), **HOST_KEYS}
    if case[0] == 'ddseq':
        import collections
        names['d'] = collections.defaultdict(lambda: 'made-by-__missing__', copy.deepcopy(d0))
        ctx.count('cases_on_a_host_defaultdict')
    ml, md = copy.deepcopy(l0), copy.deepcopy(d0)
    hl, hd = names['l'], names['d']
    done = []
    for op in seq:
        src = source(op)
        done.append(src)
        pre_l, pre_d = copy.deepcopy(ml), copy.deepcopy(md)
        try:
            exp = ('value', model(op, ml, md))
        except PE:
            exp = ('PE', None)
        except AnyErrOrNothing:
            exp = ('unpinned', None)
        except Exception as e:
            exp = ('other-error', type(e).__name__)
        try:
            got = ('value', ctx.P.eval(src, names, None, 10 ** 5))
        except ParserError as e:
            got = ('PE', str(e)[:80])
        except Exception as e:
            got = ('other-error', '%s: %s' % (type(e).__name__, str(e)[:60]))
        ctx.count('steps_compared')
        ctx.cov('operations', op[0])
        detail = {'sequence': done[-6:], 'start': case[1], 'expected': repr(exp)[:160], 'got': repr(got)[:160]}
        bad = None
        if names.get('l') is not hl or names.get('d') is not hd:
            bad = 'the container object in names was replaced'
        elif exp[0] == 'PE':
            ctx.count('required_ParserError_steps')
            if got[0] != 'PE':
                bad = 'expected ParserError (missing key / out-of-range index / empty pop / cap)'
        elif exp[0] == 'unpinned':
            ctx.count('unpinned_steps')
            if got[0] == 'value':
                pass
        elif exp[0] == 'other-error':
            if got[0] == 'value':
                bad = 'the model operation fails but the implementation returned a value'
        else:
            if got[0] != 'value':
                bad = 'the operation is defined on the model but the implementation raised'
            elif exp[1] not in ('ASSIGNED', 'NESTED') and not same(got[1], exp[1]):
                bad = 'result differs from the model'
        if bad is None:
            if not same(hl, ml) or not same(hd, md):
                bad = 'container contents differ from the model after the operation'
                detail['list'] = repr(hl)[:200] if len(hl) < 50 else 'len %d' % len(hl)
                detail['model_list'] = repr(ml)[:200] if len(ml) < 50 else 'len %d' % len(ml)
                detail['dict'] = repr(hd)[:200] if len(hd) < 50 else 'len %d' % len(hd)
                detail['model_dict'] = repr(md)[:200] if len(md) < 50 else 'len %d' % len(md)
        if bad is None and exp == ('value', 'ASSIGNED'):
            # read-back: d[k] = v is always followed by d[k] == v
            ctx.count('read_backs')
            rsrc = ('l[%s]' if op[0] in ('write', 'aug') else 'd[%s]') % op[1]
            try:
                rb = ctx.P.eval(rsrc, names, None, 10 ** 5)
                want = (ml[tr(lit_value(op[1]))] if op[0] in ('write', 'aug') else md[keystr(lit_value(op[1]))])
                if not same(rb, want):
                    bad = 'a value stored under a key is not what the next read observes'
                    detail['read_back'] = repr(rb)[:80]
            except Exception as e:
                bad = 'read-back after a successful write raised %s' % type(e).__name__
        if bad:
            ctx.violation(bad, case, detail=detail)
            return
    ctx.nontriv(repr(case))
    if ctx.counters['steps_compared'] % 3000 < len(seq):
        ctx.sample({'start': case[1], 'sequence': done[:8]})


def conclusive(m):
    c = m['counters']
    if c.get('steps_compared', 0) < 20000:
        return 'only %d steps compared' % c.get('steps_compared', 0)
    if c.get('required_ParserError_steps', 0) < 500 or c.get('read_backs', 0) < 500:
        return 'too few ParserError / read-back steps'
    if len(m['cover'].get('operations', ())) < 25:
        return 'operation alphabet not covered'
    return None
