"""C15 - insignificant surface syntax never changes the parsed program.

Monitor: metamorphic equality on the implementation's own trees: parse(p) vs parse(p') for rewrites p'
the grammar declares insignificant.  The reference parser (with span tracking) is used only to know
where subexpressions, argument lists and call forms start and end.
"""
import random
import re

from lib import gram, refspans, refparser, treeconv

ID = 'C15'
TECHNIQUE = 'metamorphic monitor: tree of the rewritten text vs tree of the original for every insignificant-layout rewrite at every applicable position; bases also from a coverage-guided corpus (atheris); equal trees also evaluated under several names mappings'
RULE = ('valid programs (random derivations of the grammar, 1-5 statements, accepted by implementation and reference) x rewrites: (1) extra blanks/tabs in any token '
        'gap, (2) end-of-line comments before existing line ends, (3) line breaks inside brackets, (4) ; <-> newline between statements, (5) blank statements, '
        '(6) LF -> CRLF, (7) a trailing comma after the last argument/element/entry of every call, method call, pipe call, list and dict, one at a time and all '
        'together, (8) redundant parentheses around every subexpression, one at a time and in random combinations, (9) the three spellings r.f(a) / r | f(a) / '
        'f(r, a) of every call site. Non-trivial = a rewritten text differing from the base text was parsed and its tree compared; distinct = distinct (base, rewritten) text pair.')
RULE += " Besides the neutral-tree comparison the implementation's own == on trees must hold; comment bodies contain FF/VT/FS-RS/NEL/U+2028/U+2029 followed by code-looking text; 15 % of the bases are preceded by an arbitrary earlier call."
RULE += ' Pairs with equal trees are also evaluated (short programs always, others 8 %) with a dict, a __missing__ mapping, a defaultdict or a Counter as names: outcome, value and names must agree.'
RULE += ' Base programs also come from the corpus grown by a coverage-guided fuzzing run per worker (atheris, differential target; 5 s quick, 100 s thorough): every corpus text that parses (<= 300 characters) goes through all rewrites.'
RULE += ' One pair in five is compared once more on a caching parser (parse_cache={}) that has first parsed the near misses of the rewritten text - the same characters with layout folded in ways that are NOT all insignificant (line breaks to blanks or to ";", all blanks removed, comments stripped, case folded, quotes swapped, leading/trailing layout) - so a cache that normalises its keys too eagerly hands back another program\'s tree.'
ASSUMPTIONS = ['the oracle is the implementation\'s own tree of the base text (metamorphic); R1 is used only for positions',
               'parentheses are added only around complete subexpressions (never parameter names, call names, assignment/del targets or lambda parameter lists)',
               'comments are placed only before existing line ends; ; <-> newline only at bracket depth 0; no trailing comma for empty lists or lambda parameter lists']
FINDINGS = {}
CASE_DEADLINE = 20


def setup(ctx):
    from smartquery import SqParser
    ctx.P = SqParser()
    ctx.PC = SqParser(parse_cache={})       # caching parser of the near-miss stage (see near_misses)
    from smartquery import functions as _functions
    ctx.count('table_entries_unknown_to_the_pinned_tree_added_to_the_identifier_pool', len(gram.use_table_names(gram.table_names())))


def cases(ctx):
    rnd = ctx.rnd
    if ctx.shard == 0:
        for t in ['x.f(a, b,)', 'x | f(a, b,)', '{"a": 1, "b": 2,}', '{"a": 1,}', '[1, 2,]', 'f(1,)', 'f(\n1,\n2\n)', 'a = 1;b = 2', 'a = 1\r\nb = 2\r\n',
                  'x.f(a) + g(x, a) + (x | f(a))', 'x | f', 'x.f()', 'f(x)', '[a,\n b # c\n, c]', '-x.f(1)[2]', 'not a in b', 'a if b else c if d else e']:
            yield ('text', t)
    yield ('cgf', rnd.getrandbits(30), ctx.scale(5, 100))          # bases from a coverage-guided corpus, one fuzzing process per worker
    for _ in range(ctx.scale(2500, 40000)):
        yield ('gen', rnd.getrandbits(48))


def impl_tree(ctx, text):
    try:
        t = ctx.P.parse(text)
        ctx.last_tree = t
        return ('ok', treeconv.norm(treeconv.conv(t)))
    except Exception as e:
        return ('rej', '%s: %s' % (type(e).__name__, str(e)[:80]))


def near_misses(text):
    """Texts a cache key normaliser could confuse with `text`: the same characters with layout folded in ways that are NOT all insignificant
    (a line break outside brackets separates statements and ends a comment; case matters; blanks inside strings matter)."""
    out = [' '.join(text.split()), text.replace('\n', ' ').replace('\r', ' '), text.replace('\n', ';'), text.strip(), text.lower(), text.upper(),
           re.sub(r'[ \t]+', '', text), re.sub(r'\s+', '', text), re.sub(r'#[^\n]*', '', text), re.sub(r'[ \t]+', ' ', text), text.replace('\r\n', '\n'),
           text.replace(';', '\n'), text.replace('"', "'"), text.rstrip() + '\n', '\n' + text]
    seen, res = {text}, []
    for t in out:
        if t not in seen:
            seen.add(t)
            res.append(t)
    return res


def cached_tree(ctx, text2):
    """Tree of text2 from a caching parser that has just been shown text2's near misses (each its own program, parsed or rejected on its own)."""
    if len(ctx.PC.parse_cache) > 300:
        ctx.PC.parse_cache.clear()
    for t in near_misses(text2):
        try:
            ctx.PC.parse(t)
        except Exception:
            pass
        ctx.count('near_miss_texts_parsed_first_on_the_caching_parser')
    try:
        return ('ok', treeconv.norm(treeconv.conv(ctx.PC.parse(text2))))
    except Exception as e:
        return ('rej', '%s: %s' % (type(e).__name__, str(e)[:80]))


def join(texts, types, r, blanks=0.0, bracket_nl=0.0, comments=0.0, crlf=False, sep_swap=0.0, blank_stmts=0.0):
    """layout renderer over fixed token texts"""
    out, depth = [], 0
    n = len(texts)
    for i, (t, s) in enumerate(zip(types, texts)):
        if i:
            gap = ' '
            if depth > 0 and r.random() < bracket_nl:
                gap = r.choice(['\n', ' \n ', '\n\n\t'])
                if r.random() < comments:
                    gap = r.choice([' # c ) ] } , ; "', ' # note \u2028 x = 5 , 7', ' #\x0c) ]', ' # a \x85 b \x0b 1 +', ' # \u2029 ; y = 2']) + gap
            elif r.random() < blanks:
                gap = r.choice(['  ', '\t', ' \t ', '    '])
            out.append(gap)
        if t == 'NEWLINE':
            if depth == 0:
                if r.random() < sep_swap:
                    s = ';' if s != ';' else '\n'
                if s != ';' and r.random() < comments:
                    out.append(r.choice(['# note ; ( " ', '# initial value\u2028x = 5 ', '# \x0c y = [ ', '# \x1c\x1d\x1e ) ', '# \x85 + 1 ']))
                if r.random() < blank_stmts:
                    s = s + r.choice([' ;', '\n', ' \n ;', ';;', '\n  \n'])
        if t in refspans.OPENERS:
            depth += 1
        elif t in refspans.CLOSERS:
            depth -= 1
        out.append(s)
    text = ''.join(out)
    if r.random() < blank_stmts:
        text = r.choice(['\n', ';', ' \n', '\n\n']) + text
    if r.random() < blank_stmts:
        text = text + r.choice(['\n', ';', ' ;', '\n\n', ' '])
    if comments and r.random() < comments:
        text += ' # trailing'
    if crlf:
        text = text.replace('\r\n', '\n').replace('\n', '\r\n')
    return text


class Missing0(dict):
    def __missing__(self, key):
        return 0


ADDR = re.compile(r'0x[0-9a-f]+')


def eval_outcome(ctx, text, flavour):
    """what eval() of the text does for the host: outcome class, value, names afterwards (addresses removed)"""
    import collections
    base = {'a': 1, 'b': [1, 2, 3], 'x': 'abc', 'f': max, 'g': min, 'k2': {'k': 1}, 'y': 2, 'c': 0, '_t': None}
    names = [dict, Missing0, lambda d: collections.defaultdict(list, d), collections.Counter][flavour]({k: v for k, v in base.items() if k not in ('b', 'k2', 'x', '_t', 'f', 'g')} if flavour == 3 else base)
    random.seed(11)                 # a base taken from a coverage-guided corpus may call rand / shuffle: both layouts draw the same numbers
    try:
        v = ctx.P.eval(text, names, None, 80)
        out = ('value', ADDR.sub('0x', repr(v))[:300])
    except Exception as e:
        out = ('raised', type(e).__name__, ADDR.sub('0x', str(e))[:200])
    return out + (ADDR.sub('0x', repr(sorted(names.items(), key=lambda kv: str(kv[0]))))[:600],)


def case_deadline(case):
    return case[2] + 400 if case[0] == 'cgf' else CASE_DEADLINE


def run_cgf(case, ctx):
    """the corpus grown by a coverage-guided run (differential target of C06: texts that each reached parser/lexer code no earlier one had) as base programs:
    every one that parses goes through all the rewrites of this check"""
    from lib import cgdriver
    _, seed, seconds = case
    r = random.Random(seed)
    seeds = ['x = [1, 2]\nx | map(v => v * 2)', 'f(1, {"a": b.c(d),}) if not x else y[1:2]', 'd["k"] += 1; del l[0]', '%a b% = r"\\d+" # c\n(p, q) => p ** -q', 'a and b not in c or not d == e',
             'x.f(1, 2,) | g | h(3)', 'v => w => v if w else 0', '-a[1] ** -b.c()', '{1: [2, {"k": (3)}], "s": \'q\'}', 'f(a,\n b)\r\n[1,\n2]; x']
    seeds += ['x = rand()\n[x, rand(1, 9)]', 'shuffle([1, 2, 3, 4])']
    out = cgdriver.run(ctx, 'c06', seed, seconds, seeds)
    if out is None:
        return
    n = 0
    for text in cgdriver.corpus_texts(ctx, limit=ctx.scale(150, 3000)):
        if len(text) > 300:
            continue
        b0 = ctx.counters['bases']
        run_case(('text', text), ctx)
        n += ctx.counters['bases'] - b0
    ctx.count('bases_taken_from_a_coverage_guided_corpus', n)


def run_case(case, ctx):
    if case[0] == 'cgf':
        return run_cgf(case, ctx)
    from lib import reflex
    if case[0] == 'text':
        try:
            lt = reflex.tokens(case[1])
        except reflex.LexError:
            return
        types = [t[0] for t in lt]
        toks = [(t[0], t[1]) for t in lt]
        # source text of each token: from its start to the start of whatever comes next (a token, an ignored line break, a comment), blanks removed
        starts = sorted(t[2] for t in reflex.tokens(case[1], keep_layout=True)) + [len(case[1])]
        nxt = {a: b for a, b in zip(starts, starts[1:])}
        texts = [case[1][t[2]:nxt[t[2]]] for t in lt]
        texts = [x if types[i] == 'STRING' else (x if x in ('\n', '\r\n') else (x.strip(' \t') if types[i] != 'NEWLINE' else (x.strip(' \t') or '\n'))) for i, x in enumerate(texts)]
        texts = [x.rstrip(' \t') if types[i] == 'STRING' else x for i, x in enumerate(texts)]
        r = random.Random(1)
    else:
        r = random.Random(case[1])
        types = []
        for k in range(r.randint(1, 5)):
            if k:
                types.append('NEWLINE')
            types += gram.gen('statement', r, r.randint(1, 5))
        if not types or len(types) > 70:
            return
        toks, _ = gram.render(types, gram.Cyc(r.getrandbits(30)))
        texts = [gram.tok(t, gram.Cyc(0))[1] for t in types]   # placeholder, replaced below
        # re-render to get per-token source texts with the same values
        c = gram.Cyc(0)
        pairs = []
        depth = 0
        ch = gram.Cyc(r.getrandbits(30))
        toks, texts = [], []
        for t in types:
            if t in refspans.OPENERS:
                depth += 1
            elif t in refspans.CLOSERS:
                depth -= 1
            tk, s = gram.tok(t, ch, newline=';' if (t == 'NEWLINE' and depth != 0) else None)
            toks.append(tk)
            texts.append(s)
    base = ' '.join(texts)
    if r.random() < 0.15:
        gram.earlier_call(ctx.P, r)
        ctx.count('bases_preceded_by_an_arbitrary_earlier_call')
    b = impl_tree(ctx, base)
    base_tree = getattr(ctx, 'last_tree', None)
    if b[0] != 'ok':
        ctx.count('bases_rejected(dropped)')
        return
    try:
        _, info = refspans.parse(toks)
    except refparser.Reject:
        ctx.count('bases_rejected_by_reference(dropped)')
        return
    except RecursionError:
        return
    ctx.count('bases')

    def check(kind, text2):
        if text2 == base:
            return
        if r.random() < 0.03:
            gram.earlier_call(ctx.P, r)
        ctx.evaluations += 1
        ctx.count('pairs_compared')
        ctx.count('rewrite:' + kind)
        ctx.nontriv(base + '\0' + text2)
        g = impl_tree(ctx, text2)
        if g == b and g[0] == 'ok' and base_tree is not None and not (ctx.last_tree == base_tree):
            # same neutral tree, but the implementation's own trees compare unequal: something layout-dependent is stored on a node
            ctx.violation('%s: the rewritten program parses to a tree that is not == the original (a node carries layout-dependent data)' % kind, ('pair', base, text2, kind),
                          detail={'base': base, 'rewritten': text2, 'base_tree': repr(base_tree)[:300], 'rewritten_tree': repr(ctx.last_tree)[:300]})
            return
        if g != b:
            what = ('%s: the rewritten program is rejected' % kind) if g[0] != 'ok' else ('%s: the rewritten program parses to a different tree' % kind)
            ctx.violation(what, ('pair', base, text2, kind), detail={'base': base, 'rewritten': text2, 'base_tree': str(b[1])[:500], 'rewritten_outcome': str(g[1])[:500]})
        elif ctx.counters['pairs_compared'] % 3000 == 1:
            ctx.sample({'rewrite': kind, 'base': base, 'rewritten': text2})
        if g == b and r.random() < 0.2:
            # the same pair on a caching parser that has first been shown the near misses of the rewritten text (programs of their own)
            ctx.count('pairs_also_compared_on_a_caching_parser_after_near_misses')
            gc = cached_tree(ctx, text2)
            if gc != b:
                ctx.violation('%s: on a caching parser that parsed near-miss texts first, the rewritten program %s' % (kind, 'is rejected' if gc[0] != 'ok' else 'parses to a different tree'),
                              ('pair', base, text2, kind), detail={'base': base, 'rewritten': text2, 'near_misses_parsed_first': near_misses(text2)[:15], 'base_tree': str(b[1])[:500], 'rewritten_outcome': str(gc[1])[:500]})
                return
        if g == b and (len(types) <= 4 or r.random() < 0.08):
            # ... and denotes the same program for the host: evaluating the two layouts gives the same outcome, value and names, whatever mapping serves
            # as names (a dict, mappings defining __missing__, a Counter)
            fl = r.randrange(4)
            o1, o2 = eval_outcome(ctx, base, fl), eval_outcome(ctx, text2, fl)
            ctx.count('pairs_also_evaluated')
            if o1 != o2 and 'RecursionError' not in (o1[1], o2[1]):
                ctx.violation('%s: the two layouts parse to the same tree but evaluate differently' % kind, ('pair', base, text2, kind),
                              detail={'base': base, 'rewritten': text2, 'names_flavour': ['dict', '__missing__', 'defaultdict', 'Counter'][fl], 'base_outcome': o1[:3], 'rewritten_outcome': o2[:3]})

    # layout rewrites (1)-(6)
    check('blanks/tabs', join(texts, types, r, blanks=0.6))
    check('bracket line breaks', join(texts, types, r, bracket_nl=0.6))
    check('comments', join(texts, types, r, comments=0.8, bracket_nl=0.4))
    check('; <-> newline', join(texts, types, r, sep_swap=1.0))
    check('blank statements', join(texts, types, r, blank_stmts=0.7))
    check('CRLF', join(texts, types, r, crlf=True, bracket_nl=0.3))
    check('all layout', join(texts, types, r, blanks=0.3, bracket_nl=0.3, comments=0.4, sep_swap=0.5, blank_stmts=0.4, crlf=r.random() < 0.5))

    def with_edits(inserts, replaces=()):
        """inserts: {index: [texts to insert before token index]} ; replaces: list of (s, e, [texts])"""
        out = []
        i = 0
        n = len(texts)
        rep = {s: (e, new) for s, e, new in replaces}
        while i <= n:
            for x in inserts.get(i, ()):
                out.append(x)
            if i == n:
                break
            if i in rep:
                e, new = rep[i]
                out += new
                i = e
                continue
            out.append(texts[i])
            i += 1
        return ' '.join(out)

    # (7) trailing commas (not where one is already present)
    info.closers = [(i, k) for i, k in info.closers if types[i - 1] != 'COMMA']
    for idx, kind in info.closers:
        check('trailing comma (%s)' % kind, with_edits({idx: [',']}))
    if len(info.closers) > 1:
        check('trailing commas (all)', with_edits({idx: [','] for idx, _ in info.closers}))
    # (8) redundant parentheses
    spans = sorted(info.spans)
    for (s, e) in spans:
        ins = {s: ['('], e: [')']}
        if s in ins and e in ins and s != e:
            check('parentheses', with_edits({s: ['('], e: [')']}))
    for _ in range(3):
        if len(spans) >= 2:
            chosen = r.sample(spans, min(len(spans), r.randint(2, 6)))
            ins = {}
            # opening parens go before the token, closing ones before the next token: build per-index lists keeping nesting order
            opens, closes = {}, {}
            for (s, e) in chosen:
                opens.setdefault(s, []).append(e)
                closes.setdefault(e, []).append(s)
            for i in set(opens) | set(closes):
                ins[i] = [')'] * len(closes.get(i, ())) + ['('] * len(opens.get(i, ()))
            check('parentheses (combination)', with_edits(ins))
    # (9) call spellings
    for c in info.calls:
        name = c['name']
        if c['kind'] == 'call':
            if not c['args']:
                continue
            recv, rest = c['args'][0], c['args'][1:]
        else:
            recv, rest = c['recv'], c['args']
        rtext = ['('] + texts[recv[0]:recv[1]] + [')']
        atexts = []
        for k, (s, e) in enumerate(rest):
            if k:
                atexts.append(',')
            atexts += texts[s:e]
        s0, e0 = c['span']
        meth = rtext + ['.', name, '('] + atexts + [')']
        pipe = rtext + ['|', name] + ((['('] + atexts + [')']) if rest else [])
        call = [name, '(', '('] + texts[recv[0]:recv[1]] + [')'] + ([','] + atexts if rest else []) + [')']
        forms = {'meth': meth, 'pipe': pipe, 'call': call}
        # reference point: this call site rewritten into each spelling must give the same tree as the base
        for kind, new in forms.items():
            if kind == c['kind']:
                continue
            # a pipe/method suffix binds tighter than unary minus / not: wrap the whole new form when the site is an operand
            check('call spelling %s -> %s' % (c['kind'], kind), with_edits({}, [(s0, e0, ['('] + new + [')'])]))


def conclusive(m):
    c = m['counters']
    if c.get('pairs_compared', 0) < 20000:
        return 'only %d pairs compared' % c.get('pairs_compared', 0)
    need = ['blanks/tabs', 'bracket line breaks', 'comments', '; <-> newline', 'blank statements', 'CRLF', 'trailing comma (call)', 'trailing comma (method)',
            'trailing comma (pipe)', 'trailing comma (list)', 'trailing comma (dict)', 'parentheses', 'parentheses (combination)', 'call spelling call -> meth',
            'call spelling call -> pipe', 'call spelling meth -> call', 'call spelling meth -> pipe', 'call spelling pipe -> call', 'call spelling pipe -> meth']
    for k in need:
        if c.get('rewrite:' + k, 0) < 50:
            return 'rewrite kind %r applied only %d times' % (k, c.get('rewrite:' + k, 0))
    return None
