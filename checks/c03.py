"""C03 - the 10000-element cap on lists and dicts cannot be circumvented.

Monitors: M3 wrappers on the element-adding mutators (entry/exit snapshots: length and element identities),
M1 with operand frames: the longest list/dict reachable from every node result (M8), with first-cause
attribution - per eval only the earliest over-long container is classified, by the node that produced it.
"""
import random
import zlib
from decimal import Decimal

from lib import heap, monitors

ID = 'C03'
TECHNIQUE = 'runtime monitor: wrappers on the element-adding mutators + max-length walk of every node result with first-cause attribution; every table entry on full containers; coverage-guided programs (atheris)'
CAP = 10000
RULE = ('(A) sequences of push / insert / index assignment / compound index assignment (call, method and pipe spelling, extra arguments, keys that are new, existing, '
        'non-string, decimal) on host lists and dicts of length 0, 1, 9998, 9999, 10000, 10001 (string keys and integer keys), interleaved with pop/del/remove; (B) programs that '
        'grow containers to the cap with map/reduce over a 10000-element host list and keep adding; every builtin and operator that returns a container applied to cap-sized '
        'inputs (+, +=, *, *=, list, dict, map, filter, sorted, reversed, shuffle, enumerate, items, keys, values, split, match_all, join, slices, literals embedding big values); '
        'strings built by doubling fed to split/map/match_all/enumerate. Non-trivial = a case in which a mutator ran on a container of >= 9998 elements or a node produced a '
        'container of >= 9998 elements; distinct = distinct (source, host container sizes).')
RULE += ' Element-adding operations with an invalid index (text, None, NaN, infinity, a container) on full containers; lookups (get, in, index_of) on a full host defaultdict.'
RULE += " Coverage-guided programs: one atheris/libFuzzer process per worker (6 s quick, 120 s thorough) runs this check's own judgement on generated program texts over the instrumented sandbox copy; programs on which an unlisted violation was recorded there are judged again by the worker."
RULE += " One program in five runs against the function table as the repository built it (monitor wrappers taken out for those eval calls, the node monitor stays on): code that recognises its own builtins by identity takes other paths under wrappers."
ASSUMPTIONS = ['B = max(10000, longest host-supplied list/dict/string, length of the source text (upper bound for any literal))',
               'element-adding = push, insert, index assignment, compound index assignment; on a container with len >= 10000 at entry they must raise ParserError and leave '
               'the container (length and element identities) unchanged; an overwrite of an existing slot that succeeded without growth would not be flagged, growth always is',
               'first-cause attribution: later over-long containers whose inputs were already over-long are propagation']
FINDINGS = {
    'concat': 'list + list, x += list and c[k] += list are not checked against the cap (6000 + 6000 -> 12000)',
    'string-derived': 'strings are uncapped, and split / map / match_all / enumerate / sorted / reversed ... turn a >= 10000-character string built by the program into a list of that many elements',
}
CASE_DEADLINE = 60
ADDERS = ('push', 'insert', '__setitem__', '__setitem_with_op__')
D = Decimal


def snapshot(c):
    """the slots of a container with the objects themselves (kept alive, so that their addresses cannot be handed to replacements) and the lengths of nested containers"""
    items = list(c.items()) if isinstance(c, dict) else list(enumerate(c))
    return [(k, v, len(v) if isinstance(v, (list, dict)) else None) for k, v in items]


def unchanged(c, snap):
    items = list(c.items()) if isinstance(c, dict) else list(enumerate(c))
    return len(items) == len(snap) and all(k == k0 and v is v0 and (len(v) if isinstance(v, (list, dict)) else None) == n0 for (k, v), (k0, v0, n0) in zip(items, snap))


class Watch:
    def __init__(self, ctx):
        self.ctx = ctx
        self.stack = []
        self.case = None
        self.src = ''
        self.B = CAP
        self.first = None         # first over-long observation of this eval
        self.big_seen = False

    # ---- M3 on the adders
    def adder(self, name, orig):
        W = self

        def wrapper(*args, **kw):
            ctx = W.ctx
            c = args[0] if args else None
            if not isinstance(c, (list, dict)):
                return orig(*args, **kw)
            n0 = len(c)
            snap = None
            if n0 >= CAP - 2:
                W.big_seen = True
                snap = snapshot(c)
            try:
                r = orig(*args, **kw)
            except BaseException as e:
                if not isinstance(e, Exception):
                    raise           # the harness's own per-case deadline passing through: nothing to judge
                if snap is not None:
                    ctx.count('adder_calls_near_cap')
                    if not unchanged(c, snap):
                        ctx.violation('%s raised but left the container changed' % name, W.case,
                                      detail={'src': W.src, 'len_before': n0, 'len_after': len(c), 'error': type(e).__name__})
                    elif n0 >= CAP:
                        from smartquery.exceptions import ParserError
                        ctx.count('adder_calls_at_cap_refused')
                        if not isinstance(e, ParserError) and not W.foreign_error(name, args, e):
                            ctx.violation('%s on a full container failed with %s instead of ParserError' % (name, type(e).__name__), W.case,
                                          detail={'src': W.src, 'len': n0, 'error': str(e)[:100]})
                raise
            if snap is not None:
                ctx.count('adder_calls_near_cap')
                if len(c) > n0 and n0 >= CAP:
                    ctx.violation('%s made a container of %d elements longer (%d)' % (name, n0, len(c)), W.case, detail={'src': W.src, 'args': repr(args[1:])[:80]})
                elif n0 >= CAP:
                    if unchanged(c, snap):
                        ctx.count('adder_noop_at_cap')
                    else:
                        # succeeded at the cap without growth: an overwrite; the statement says the operation fails
                        ctx.violation('%s on a container that already holds %d elements did not fail (overwrote a slot)' % (name, n0), W.case,
                                      detail={'src': W.src, 'args': repr(args[1:])[:80]})
            return r
        wrapper.__name__ = 'verif_' + name
        return wrapper

    @staticmethod
    def foreign_error(name, args, e):
        """wrong arity is the caller's mistake, reported by Python before the builtin runs (nothing added, nothing to refuse)"""
        return isinstance(e, TypeError) and ('positional argument' in str(e) or 'required positional' in str(e))

    # ---- M1 with frames
    def enter(self, node, state):
        self.stack.append((node, []))

    def exit(self, node, state, value):
        fr = self.stack.pop()
        if self.stack:
            self.stack[-1][1].append(value)
        k = type(node).__name__
        # statements and mutators change a container without returning it: look at what they changed
        if k == 'ShortOp' or k == 'AssignOp':
            try:
                value = state.names[node.name]
            except Exception:
                pass
        elif k == 'CallOp' and fr[1] and getattr(node, 'name', None) in ADDERS and isinstance(fr[1][0], (list, dict)):
            value = fr[1][0]
        t = type(value)
        if t is list or t is dict or t is tuple:
            n = heap.max_len(value)
            if n >= CAP - 2:
                self.big_seen = True
            if n > self.B and self.first is None:
                self.first = self.classify(node, fr[1], value, n)

    def raised(self, node, state, exc):
        if self.stack:
            self.stack.pop()

    def classify(self, node, kids, value, n):
        k = type(node).__name__
        name = getattr(node, 'name', None)
        op = getattr(node, 'op', None)
        finding = None
        if k == 'BinOp' and op == '+' and len(kids) >= 2 and isinstance(kids[0], list) and isinstance(kids[1], list):
            finding = 'concat'
        elif k == 'ShortOp' and op == '+=' and kids and isinstance(value, list):
            finding = 'concat'          # x += <any iterable> on a list: the same unchecked in-place concatenation (a string operand adds its characters)
        elif k == 'CallOp':
            strs = [x for x in kids if isinstance(x, str) and len(x) >= CAP]
            if name not in ADDERS and strs and n <= max(len(x) for x in strs) + 1:
                finding = 'string-derived'
            elif name == '__setitem_with_op__' and len(kids) == 4 and kids[2] == '+=' and isinstance(kids[3], (list, str, tuple, dict)):
                finding = 'concat'
        return {'finding': finding, 'what': 'a %s of %d elements (bound %d) produced by %s' % (type(value).__name__, n, self.B, k + (' ' + str(name or op) if (name or op) else '')),
                'detail': {'src': self.src, 'producer': k, 'name_or_op': name or op, 'operand_kinds': [type(x).__name__ + (':%d' % len(x) if hasattr(x, '__len__') else '') for x in kids][:5]}}



def setup(ctx):
    from smartquery import SqParser
    from smartquery import functions
    ctx.P = SqParser()
    ctx.W = W = Watch(ctx)
    ctx.M1 = M1 = monitors.NodeMonitor()
    M1.on_enter, M1.on_exit, M1.on_raise = W.enter, W.exit, W.raised
    F = functions.FUNCTIONS
    ctx.F, ctx.rawF = F, dict(F)
    for n in ADDERS:
        F[n] = W.adder(n, F[n])
    ctx.wrapF = dict(F)


SIZES = [0, 1, 9998, 9999, 10000, 10001]
LIST_OPS = ['push(L, 1)', 'L.push(2)', 'L | push(3)', 'insert(L, 0, 1)', 'L.insert(5, 1)', 'insert(L, -1, 1)', 'insert(L, 99999, 1)', 'L[0] = 5', 'L[-1] = 5', 'L[9999] = 5', 'L[1.5] = 5',
            'L[0] += 1', 'L[-1] -= 1', 'L[9999] *= 2', 'push(L, 1, 2, 3)', 'insert(L, 0, 1, 2)', 'push(L, L)', 'push(L, [1, 2])', 'pop(L)', 'del L[0]', 'remove(L, 5)', 'L[len(L)] = 1',
            'L[10000] = 1', 'L[0] = L', 'map([1, 2, 3], v => push(L, v))', 'map([1, 2, 3], v => insert(L, 0, v))', 'hm(v => push(L, v), 3)', '__setitem__(L, 0, 1)',
            '__setitem_with_op__(L, 0, "+=", 1)', 'L[0] /= 2', 'push(L)',
            # element-adding operations whose index is itself invalid: on a full container the refusal comes first
            'insert(L, "x", 1)', 'insert(L, None, 1)', 'L["x"] = 1', 'L[None] = 1', 'L["x"] += 1', 'L[hnan] = 1', 'L[hinf] += 1', 'insert(L, hnan, 1)', 'insert(L, [], 1)', 'L[{}] = 1', 'L += [1]', 'L += [1, 2, 3]', 'x = L + [1]', 'L[0:2]']
DICT_OPS = ['Dd["zz"] = 1', 'Dd["0"] = 1', 'Dd[0] = 1', 'Dd[5] = "x"', 'Dd[True] = 1', 'Dd[None] = 1', 'Dd[1.5] = 1', 'Dd["0"] += 1', 'Dd[0] += 1', 'Dd["zz"] += 1', 'Dd[7] -= 1',
            '__setitem__(Dd, "q", 1)', '__setitem__(Dd, 3, 1)', 'del Dd["0"]', 'del Dd[1]', 'remove(Dd, "2")', 'map([1, 2, 3], v => __setitem__(Dd, "n" + v, v))',
            'map(["a", "b"], v => __setitem__(Dd, v, 1))', 'Dd["0"] = Dd', 'Dd[10000] = 1', 'Dd[9999] = 1', 'Dd[-1] = 1', 'hm(v => __setitem__(Dd, v, v), 3)', 'Dd["k"] = [1]',
            # lookups are not element-adding operations: a host mapping that inserts on a subscript miss (defaultdict) must not grow through them
            'get(Dd, "missing", 7)', 'get(Dd, "zz")', 'map(["m1", "m2", "m3"], k => get(Dd, k))', '"zz" in Dd', 'index_of(keys(Dd), "zz")', 'x = Dd\nget(x, "q")\nlen(x)']
PRODUCERS = ['big + big', 'big + [1]', '[1] + big', 'x = big\nx += big\nx', 'x = big\nx += [1, 2]\nlen(x)', 'c = [big]\nc[0] += big\nc', 'c = {"k": big}\nc["k"] += [1]\nc', 'big * 2', '[big, big]',
             'list(big)', 'list(big, big)', 'map(big, v => [v, v])', 'map(big, v => v) + map(big, v => v)', 'items(bigd)', 'keys(bigd)', 'values(bigd)', 'enumerate(big)', 'sorted(big)',
             'reversed(big)', 'shuffle(big)', 'filter(big, v => True)', 'sorted(bigd)', 'dict(bigd)', 'dict(items(bigd))', 'big[0:10001]', 'big[::-1]', 'big[::1] + big[0:1]',
             'reduce([big, big], (a, b) => a + b)', 'reduce(half, (a, b) => a + [b]) if False else 1', 'acc = []\nmap(big, v => push(acc, v))\npush(acc, 1)',
             'acc = []\nmap(big, v => push(acc, v))\nlen(acc)', 'acc = {}\nmap(big, v => __setitem__(acc, v, v))\nacc["extra"] = 1', 'acc = []\nmap(big, v => insert(acc, 0, v))\ninsert(acc, 0, 1)',
             'acc = [0]\nmap(big, v => push(acc, v))', 'x = [1, 2, 3]\nx *= 5000\nx', '[1, 2, 3] * 5000', 'o = {"a": [1, 2, 3]}\no["a"] *= 5000\no', 'x = [0]\nx *= 10001', '[0] * 10001',
             's = "ab"\ns += s\ns += s\ns += s\ns += s\ns += s\ns += s\ns += s\ns += s\ns += s\ns += s\ns += s\ns += s\ns += s\ns += s\nsplit(s, "a")',
             's = "ab"\ns += s\ns += s\ns += s\ns += s\ns += s\ns += s\ns += s\ns += s\ns += s\ns += s\ns += s\ns += s\ns += s\ns += s\nmap(s, v => v)',
             's = "ab"\ns += s\ns += s\ns += s\ns += s\ns += s\ns += s\ns += s\ns += s\ns += s\ns += s\ns += s\ns += s\ns += s\ns += s\nmatch_all(s, "")',
             's = "ab"\ns += s\ns += s\ns += s\ns += s\ns += s\ns += s\ns += s\ns += s\ns += s\ns += s\ns += s\ns += s\ns += s\ns += s\nenumerate(s) | len',
             's = "ab"\ns += s\ns += s\ns += s\ns += s\ns += s\ns += s\ns += s\ns += s\ns += s\ns += s\ns += s\ns += s\ns += s\ns += s\nsorted(s) | len',
             'join(big, ",") | split(",")', 'split(str(big), ",")', 'match_all(join(big, " "), "[0-9]+")', 'map(bigs, v => v)', 'split(bigs, "")', 'enumerate(bigs)', 'match_all(bigs, "a")',
             'pretty(big)', 'str(big) | len', 'x = big\nx[0] = big\nx', 'x = [big, big, big]\nlen(x)', '{"a": big, "b": big}', 'get({"a": big}, "a")', 'rand(big)', 'max(big, big)', 'sum([big, big]) if False else 0',
             'x = half + half\nx', 'x = half + half + [1]\nx', 'x = half\nx += half\nx += half\nx', 'map(half, v => v) + map(half, v => v) + [1]', 'reversed(half) + sorted(half) + [0]']


def names_for(src, size, intkeys):
    def hm(f, n):
        return [f(D(i)) for i in range(int(n))]
    n = {'hm': hm, 'hnan': float('nan'), 'hinf': float('inf')}
    if 'L' in src:
        n['L'] = [D(i) for i in range(size)]
    if 'Dd' in src:
        n['Dd'] = {(i if intkeys else str(i)): D(i) for i in range(size)}
        if intkeys == 'dd':
            import collections
            n['Dd'] = collections.defaultdict(lambda: D(0), {str(i): D(i) for i in range(size)})    # a host mapping whose __missing__ inserts
    if 'big' in src:
        n['big'] = [D(i) for i in range(CAP)]
    if 'bigd' in src:
        n['bigd'] = {str(i): D(i) for i in range(CAP)}
    if 'half' in src:
        n['half'] = [D(i) for i in range(6000)]
    if 'bigs' in src:
        n['bigs'] = 'ab' * 10000
    return n


def cases(ctx):
    rnd = ctx.rnd
    n = 0
    for size in SIZES:
        for op in LIST_OPS:
            if n % ctx.nshards == ctx.shard:
                yield ('src', op, size, False)
            n += 1
        for op in DICT_OPS:
            for ik in (False, True, 'dd'):
                if n % ctx.nshards == ctx.shard:
                    yield ('src', op, size, ik)
                n += 1
    for p in PRODUCERS:
        if n % ctx.nshards == ctx.shard:
            yield ('src', p, CAP, False)
        n += 1
    # every entry of the function table of the tree under test (whatever it is) applied to full and nearly full host containers: nothing reachable from
    # names may be longer than the bound afterwards
    from smartquery import functions as _functions
    from lib import gram as _gram
    for name in sorted(set(_functions.FUNCTIONS) | set(_gram.table_names())):
        for args in ('L, 1', 'L, 0, 1', 'L, [1]', 'L, 1, 2, 3', 'L, L', 'Dd, "zz", 1', 'Dd, "zz"', 'Dd, {"zz": 1, "zy": 2}', 'Dd, Dd', 'Dd, "zz", [1]', 'L, v => v', 'Dd, (k, v) => v'):
            for size in (9999, 10000):
                if n % ctx.nshards == ctx.shard:
                    yield ('src', '%s(%s)' % (name, args), size, 'dd' if ('Dd' in args and size == 10000 and len(name) % 2 and name != '__getitem__') else False)   # (an index READ of a host defaultdict inserts by the host's own __missing__)
                n += 1
    yield ('cgf', rnd.getrandbits(30), ctx.scale(6, 120))          # coverage-guided programs, one fuzzing process per worker
    # random sequences
    for _ in range(ctx.scale(25, 500)):
        size = rnd.choice(SIZES)
        k = rnd.randint(2, 8)
        if rnd.random() < 0.5:
            yield ('src', '\n'.join(rnd.choice(LIST_OPS) for _ in range(k)), size, False)
        else:
            yield ('src', '\n'.join(rnd.choice(DICT_OPS) for _ in range(k)), size, rnd.random() < 0.5)


def case_deadline(case):
    return case[2] + 400 if case[0] == 'cgf' else CASE_DEADLINE


def run_cgf(case, ctx):
    """coverage-guided programs over a full host list / dict (10000 elements): an atheris/libFuzzer process runs THIS check's run_case on ('src', text, 10000, False)
    cases over the instrumented sandbox copy; programs on which an unlisted violation was recorded there are judged again here"""
    from lib import cgdriver
    _, seed, seconds = case
    r = random.Random(seed)
    seeds = LIST_OPS[:12] + DICT_OPS[:8] + ['x = L\nx[len(x)] = 1', 'map([1, 2], v => push(L, v))', 'Dd[str(len(Dd))] = 1', 'y = [L, L]\npush(y[0], 3)', 'L.insert(len(L), 0)', 'sorted(L) | push(1)']
    out = cgdriver.run(ctx, 'check:C03:src', seed, seconds, seeds)
    if out is None:
        return
    st, fired, _slow = out
    for text in fired:
        ctx.count('programs_on_which_the_oracle_fired_in_the_fuzzing_process')
        before = len(ctx.violations)
        run_case(('src', text, 10000, False), ctx)
        if len(ctx.violations) == before:
            ctx.violation('coverage-guided fuzzing: a violation was recorded in the fuzzing process but not when the program was judged again here', ('src', text, 10000, False), detail={'src': text[:300]})


def run_case(case, ctx):
    if case[0] == 'cgf':
        return run_cgf(case, ctx)
    _, src, size, intkeys = case
    ctx.M1.lambdas.clear()         # the registry keeps every lambda (and through it the names of its evaluation) alive
    W = ctx.W
    W.case, W.src, W.stack, W.first, W.big_seen = case, src, [], None, False
    names = names_for(src, size, intkeys)
    W.B = max(CAP, len(src), max([heap.max_len(v) for v in names.values()] + [0]), max([len(v) for v in names.values() if isinstance(v, str)] + [0]))
    # statements run one by one on the persistent names, so that a failing statement does not hide the following ones
    # one program in five runs against the function table as the repository built it (wrappers out for these calls; the node monitor still judges the
    # size of every node value and of everything reachable from names afterwards): code that recognises its own builtins by identity takes other paths under wrappers
    unwrapped = zlib.crc32(src.encode('utf-8', 'replace')) % 5 == 0
    if unwrapped:
        ctx.count('programs_run_against_the_unwrapped_function_table(node monitor only)')
    for line in split_statements(src):
        W.stack = []
        if unwrapped:
            ctx.F.clear()
            ctx.F.update(ctx.rawF)
        try:
            ctx.P.eval(line, names, None, 10 ** 6)
            ctx.count('statements_completed')
        except Exception as e:
            ctx.cov('exception_classes', type(e).__name__)
        finally:
            if unwrapped:
                ctx.F.clear()
                ctx.F.update(ctx.wrapF)
        ctx.count('statements_run')
        if W.first is not None:
            break
    if W.first is None:
        # names afterwards
        n = max([heap.max_len(v) for v in names.values()] + [0])
        if n > W.B:
            W.first = {'finding': None, 'what': 'a container of %d elements (bound %d) is reachable from names after the call' % (n, W.B), 'detail': {'src': src}}
    if W.first is not None:
        ctx.violation(W.first['what'], case, finding=W.first['finding'], detail=W.first['detail'])
    if W.big_seen:
        ctx.nontriv('%s|%d|%s' % (src, size, intkeys))
    if ctx.counters['statements_run'] % 60 < 2:
        ctx.sample({'src': src[:200], 'host_container_size': size, 'integer_keys': intkeys})


def split_statements(src):
    """multi-line programs whose lines depend on program variables are run as one eval; pure operation sequences line by line"""
    lines = src.split('\n')
    if any(l.split(' ')[0] in ('x', 's', 'acc', 'c', 'o') or ' = ' in l and l.split(' = ')[0] in ('x', 's', 'acc', 'c', 'o') for l in lines):
        return [src]
    return lines


def after_timeout(ctx):
    ctx.W.stack = []


def conclusive(m):
    c = m['counters']
    if c.get('adder_calls_near_cap', 0) < 300:
        return 'only %d adder calls near the cap' % c.get('adder_calls_near_cap', 0)
    if c.get('adder_calls_at_cap_refused', 0) < 100:
        return 'only %d refusals at the cap observed' % c.get('adder_calls_at_cap_refused', 0)
    if m['n_timeouts'] > 5:
        return 'timed-out cases'
    return None
