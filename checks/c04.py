"""C04 - arithmetic stays in bounded-precision decimals; numbers cannot blow up.

Monitors: M1 (node monitor with operand frames) on BinOp / UnaryOp / ShortOp exits, M3 wrappers on the
numeric builtins and on the compound-index-assignment helper.  Oracle: online digit-count assertion
with the operand widths in hand.
"""
import enum
import math
import random
import zlib
from decimal import Decimal

from lib import monitors

ID = 'C04'
TECHNIQUE = "runtime monitor: digit-count assertion at every arithmetic node exit and numeric-builtin exit, operand widths in hand; random magnitudes, coverage-guided programs (atheris), the repository's tests"
RULE = ('programs: every arithmetic operator and compound assignment (name and index form) over all ordered pairs from a pool of '
        'host-suppliable numbers (ints up to 10^50, bools, floats incl. 1e300/nan/inf, Decimals with 1-40 digit coefficients and '
        'exponents up to +-5000) and repetition-capable operands (str, list), as host names and as literals; multipliers obtained '
        'inside the language (len, index_of); chains of 2-30 operations; numeric builtins int/float/round/floor/ceil/abs/sum/min/max '
        'over the pool. The oracle runs at every BinOp/UnaryOp/ShortOp exit and every numeric-builtin exit. Non-trivial = at least one '
        'monitored exit with a numeric operand was judged; distinct = distinct (source, host names).')
RULE += ' Host numbers include int / float / Decimal subclasses and IntEnum members.'
RULE += " One more workload: the repository's own test-suite, run in a worker process against the sandbox copy with this check's monitors installed (the tests' assertions are not the oracle, the monitors are)."
RULE += " Coverage-guided programs over host numbers of all types: one atheris/libFuzzer process per worker (5 s quick, 100 s thorough) runs this check's own judgement on generated program texts; programs on which an unlisted violation was recorded there are judged again by the worker."
RULE += " One program in five runs against the function table as the repository built it (monitor wrappers taken out for those eval calls, the node monitor stays on): code that recognises its own builtins by identity takes other paths under wrappers."
ASSUMPTIONS = ['size of a Decimal = length of its coefficient; of an int = number of decimal digits; a float result counts as <= 17, a float '
               'argument as its exact decimal expansion',
               'for numeric operands, "raises an arithmetic error" = an ArithmeticError subclass (decimal signals, ZeroDivisionError, OverflowError)',
               'sum over n items is n-1 additions: bound = widest + ceil(log10 n) + 1',
               'exponents are capped at 5000 for int/floor/ceil/round and round\'s digit count within +-10^4 (single C calls beyond that do not return '
               'in reasonable time; no property bounds evaluation time outside the regex builtins)']
FINDINGS = {
    'intlike-expands-exponent': 'int/floor/ceil/round materialise every integer digit of a Decimal with a large positive exponent',
    'compound-multiply-native': '*= uses the native operator: host ints multiply at full width, strings and lists are repeated',
}
CASE_DEADLINE = 15
NUMERIC = (int, float, Decimal)
NUM_BUILTINS = ['int', 'float', 'round', 'floor', 'ceil', 'abs', 'sum', 'min', 'max']


def size(v, as_argument):
    if isinstance(v, bool):
        return 1
    if isinstance(v, int):
        return len(str(abs(v)))
    if isinstance(v, float):
        if not as_argument:
            return 17
        if v != v or v in (float('inf'), float('-inf')):
            return 1
        return len(Decimal(v).as_tuple().digits)
    if isinstance(v, Decimal):
        if not v.is_finite():
            return 1
        return len(v.as_tuple().digits)
    return None


def widest(args):
    w, n = 0, 0
    for a in args:
        if isinstance(a, (list, tuple)):
            for x in a:
                s = size(x, True)
                if s is not None:
                    w, n = max(w, s), n + 1
        else:
            s = size(a, True)
            if s is not None:
                w, n = max(w, s), n + 1
    return w, n


class Watch:
    def __init__(self, ctx):
        self.ctx = ctx
        self.stack = []
        self.case = None
        self.judged = 0

    # ---- M1 hooks
    def enter(self, node, state):
        pre = None
        if type(node).__name__ == 'ShortOp':
            try:
                pre = ('v', state.names[node.name])
            except Exception:
                pre = None
        self.stack.append((node, [], pre))

    def exit(self, node, state, value):
        fr = self.stack.pop()
        if self.stack:
            self.stack[-1][1].append(value)
        self.judge_node(node, fr[1], fr[2], state, value, None)

    def raised(self, node, state, exc):
        fr = self.stack.pop()
        self.judge_node(node, fr[1], fr[2], state, None, exc)

    def judge_node(self, node, kids, pre, state, value, exc):
        kind = type(node).__name__
        ctx = self.ctx
        if kind == 'BinOp':
            op = node.op
            if op in ('and', 'or') or len(kids) < 2:
                return
            a, b = kids[0], kids[1]
            self.arith('operator ' + op, op.rstrip('='), a, b, value, exc)
        elif kind == 'UnaryOp':
            if node.op == '-' and kids:
                self.arith('unary -', '-', kids[0], None, value, exc)
        elif kind == 'ShortOp':
            if pre is None or not kids:
                return
            if exc is None:
                try:
                    value = state.names[node.name]
                except Exception:
                    return
            self.arith('compound ' + node.op, node.op[0], pre[1], kids[0], value, exc, compound=True)

    # ---- shared oracle
    def arith(self, where, op, a, b, result, exc, compound=False):
        ctx = self.ctx
        ops = [a] if b is None and where == 'unary -' else [a, b]
        numeric = all(isinstance(x, NUMERIC) for x in ops)
        finding = 'compound-multiply-native' if (compound and op == '*') else None
        if op in ('*', '**'):
            ctx.count('mul_pow_exits')
            if exc is None and isinstance(result, (str, list, tuple, bytes)) and not (op == '*' and False):
                self.judged += 1
                ctx.violation('%s repeated a %s' % (where, type(result).__name__), self.case, finding=finding,
                              detail={'operands': [repr(a)[:80], repr(b)[:80]], 'result_len': len(result)})
                return
            if numeric:
                self.judged += 1
                ctx.count('mul_pow_numeric_judged')
                if exc is not None:
                    if not isinstance(exc, Exception):
                        return          # the harness's own per-case deadline (a BaseException) passing through the node: nothing to judge
                    if not isinstance(exc, ArithmeticError):
                        ctx.violation('%s on numbers raised %s (not an arithmetic error)' % (where, type(exc).__name__), self.case,
                                      finding=finding, detail={'operands': [repr(a)[:80], repr(b)[:80]], 'error': str(exc)[:200]})
                    else:
                        ctx.count('arith_errors_' + type(exc).__name__)
                    return
                if not isinstance(result, Decimal) or size(result, False) > 28:
                    ctx.violation('%s on numbers did not compute in 28-digit decimals' % where, self.case, finding=finding,
                                  detail={'operands': [repr(a)[:80], repr(b)[:80]], 'result_type': type(result).__name__,
                                          'result_digits': size(result, False), 'result': repr(result)[:80]})
                return
        if exc is not None or not numeric:
            return
        rs = size(result, False)
        if rs is None:
            return
        self.judged += 1
        ctx.count('numeric_node_exits_judged')
        w, _ = widest(ops)
        if rs > max(28, w + 1):
            ctx.violation('%s returned a number with %d digits from operands of at most %d' % (where, rs, w), self.case,
                          finding=finding, detail={'operands': [repr(a)[:80], repr(b)[:80]], 'result': repr(result)[:80]})

    # ---- M3 wrappers
    def builtin(self, name, orig):
        watch = self

        def wrapper(*args, **kw):
            try:
                r = orig(*args, **kw)
            except BaseException:
                watch.ctx.count('builtin_raises_' + name)
                raise
            watch.judge_builtin(name, args, r)
            return r
        wrapper.__name__ = 'verif_' + name
        return wrapper

    def judge_builtin(self, name, args, r):
        ctx = self.ctx
        rs = size(r, False)
        if rs is None:
            return
        w, n = widest(args)
        if n == 0:
            return
        self.judged += 1
        ctx.count('builtin_exits_judged')
        ctx.cov('numeric_builtins_judged', name)
        if name == 'float':
            a = args[0]
            try:
                exp = Decimal(float(a))
            except Exception:
                return
            if not isinstance(r, Decimal) or not (r == exp or (r.is_nan() and exp.is_nan())):
                ctx.violation('float() is not the exact binary expansion', self.case, detail={'arg': repr(a)[:80], 'result': repr(r)[:80]})
            return
        bound = max(28, w + 1)
        if name == 'sum' and n > 1:
            bound = max(28, w + 1 + math.ceil(math.log10(n)))
        if rs > bound:
            finding = None
            if name in ('int', 'floor', 'ceil', 'round') and isinstance(args[0], Decimal) and args[0].is_finite() and args[0].adjusted() >= 28:
                finding = 'intlike-expands-exponent'
            ctx.violation('%s returned a number with %d digits from arguments of at most %d' % (name, rs, w), self.case, finding=finding,
                          detail={'args': repr(args)[:160], 'result': repr(r)[:60]})

    def setitem_with_op(self, orig):
        watch = self

        def wrapper(container, key, op, value, *rest):
            pre = None
            try:
                from smartquery.functions import _key_cast
                pre = ('v', container[_key_cast(container, key)])
            except Exception:
                pre = None
            try:
                r = orig(container, key, op, value, *rest)
            except BaseException as e:
                if pre is not None:
                    watch.arith('compound-index ' + str(op), str(op)[0], pre[1], value, None, e, compound=True)
                raise
            if pre is not None:
                try:
                    from smartquery.functions import _key_cast
                    now = container[_key_cast(container, key)]
                except Exception:
                    return r
                watch.arith('compound-index ' + str(op), str(op)[0], pre[1], value, now, None, compound=True)
            return r
        return wrapper


def setup(ctx):
    from smartquery import SqParser
    from smartquery import functions
    ctx.P = SqParser()
    ctx.W = W = Watch(ctx)
    ctx.M1 = M1 = monitors.NodeMonitor()
    M1.on_enter, M1.on_exit, M1.on_raise = W.enter, W.exit, W.raised
    F = functions.FUNCTIONS
    ctx.F, ctx.rawF = F, dict(F)
    for n in NUM_BUILTINS:
        if n in F:
            F[n] = W.builtin(n, F[n])
    # entries the pinned table does not have are judged like the numeric builtins (a number computed from numbers obeys the same bound) and get a workload
    from lib import gram
    ctx.new_entries = sorted(n for n in F if n not in gram.PINNED_TABLE)
    for n in ctx.new_entries:
        F[n] = W.builtin(n, F[n])
    ctx.count('table_entries_unknown_to_the_pinned_tree_judged_as_numeric_builtins', len(ctx.new_entries))
    if '__setitem_with_op__' in F:
        F['__setitem_with_op__'] = W.setitem_with_op(F['__setitem_with_op__'])
    ctx.wrapF = dict(F)


D = Decimal
POOL = [0, 1, -1, 7, 10 ** 30, 10 ** 50 - 1, -(10 ** 40) + 3, 2 ** 70, True, False, 1.5, 1e300, -2.5e-300, float('nan'), float('inf'), 0.1,
        D('0.1'), D('1E+1000'), D('1E+5000'), D('9.99E-500'), D('1234567890123456789012345678'), D('1234567890123456789012345678901234567890'),
        D('-3'), D('2'), D('0'), D('1E-5000'), D('NaN'), D('Infinity'), D('7.000'), D('123456789.123456789123456789123456789')]
class Cents(int):
    """a host number that is an int without being exactly `int`"""


class Ratio(float):
    """a host number that is a float without being exactly `float`"""


class Level(enum.IntEnum):
    LOW = 3
    HIGH = 12345678901234567890


class Money(D):
    """a Decimal subclass"""


POOL += [Cents(12345678901234567890), Cents(-7), Ratio(2.5), Ratio(1e200), Level.HIGH, Level.LOW, Money('12345678901234567890.12345'), Money('3')]
REP = ['ab', '', [1, 2], [], [[0]], 'x' * 50]
LITS = ['0', '1', '7', '2.5', '0.1', '1000000000000000000000000000000', '99999999999999999999999999999999999999999999999999',
        '1234567890123456789012345678.9', '3', '10', '0.0000000000000000000000000000000001']
OPS = ['+', '-', '*', '/', '**']


def cases(ctx):
    rnd = ctx.rnd
    n = 0
    if ctx.shard == ctx.nshards - 1:
        yield ('repo-tests', '', {})
    yield ('cgf', rnd.getrandbits(30), ctx.scale(5, 100))          # coverage-guided programs, one fuzzing process per worker
    for name in getattr(ctx, 'new_entries', ()):
        for a in POOL:
            for b in rnd.sample(POOL, 6):
                if n % ctx.nshards == ctx.shard:
                    yield ('src', '[%s(a), %s(a, b), %s([a, b]), %s([a, b, a, b])]' % ((name,) * 4) if False else '%s(a, b)' % name, {'a': a, 'b': b})
                    yield ('src', '%s([a, b, a, b, a])' % name, {'a': a, 'b': b})
                    yield ('src', '%s(a)' % name, {'a': a})
                n += 1
    # directed witnesses (kept in the workload so the mechanisms are always exercised)
    if ctx.shard == 0:
        yield ('src', 'x = "ab"\nx *= len(x)\nx', {})
        yield ('src', 'x = [1, 2]\nx *= len(x)\nx', {})
        yield ('src', 'c = ["ab"]\nc[0] *= len(c[0]) + 2\nc', {})
        yield ('src', 'a *= a\na *= a\na *= a\na', {'a': 10 ** 30 + 7})
        yield ('src', 'c[0] *= c[0]\nc[0] *= c[0]\nc', {'c': [10 ** 30 + 7]})
        yield ('src', 'int(10 ** 1000)', {})
        yield ('src', 'floor(x)', {'x': D('1E+2000')})
        yield ('src', 'round(10 ** 40 * 10 ** 40)', {})
        yield ('src', 'ceil(10 ** 100)', {})
    # all ordered pairs x operator x form
    pool = POOL + REP
    for a in pool:
        for b in pool:
            for op in OPS:
                if n % ctx.nshards == ctx.shard:
                    if not ((a in REP[:0]) and False):
                        yield ('src', 'a %s b' % op, {'a': a, 'b': b})
                        if op != '**':
                            yield ('src', 'a %s= b\na' % op, {'a': a, 'b': b})
                            yield ('src', 'c[0] %s= b\nc' % op, {'c': [a], 'b': b})
                            yield ('src', 'd["k"] %s= b\nd' % op, {'d': {'k': a}, 'b': b})
                n += 1
    # literals and in-language ints
    for la in LITS:
        for lb in LITS:
            for op in OPS:
                if n % ctx.nshards == ctx.shard:
                    yield ('src', '%s %s %s' % (la, op, lb), {})
                    yield ('src', '-%s %s %s' % (la, op, lb), {})
                    if op != '**':
                        yield ('src', 'x = %s\nx %s= %s\nx' % (la, op, lb), {})
                n += 1
    for r in REP:
        for mult in ['len(s)', 'len(s) + 1', 'index_of([5, 6, 7], 7)', 'len([1, 2, 3])', '3', 'm', 'True', 'len(s) * 1', 'sum([])', '2.0', 'int(2)']:
            for form in ['s * %s', '%s * s', 's ** %s', 'x = s\nx *= %s\nx', 'c = [s]\nc[0] *= %s\nc', 'd = {"k": s}\nd["k"] *= %s\nd',
                         'x = %s\nx *= s\nx', 'map([s], v => v * %s)', 'f = v => v * %s\nf(s)']:
                if n % ctx.nshards == ctx.shard:
                    yield ('src', form % mult, {'s': r, 'm': 3})
                n += 1
    # numeric builtins over the pool
    small = [x for x in POOL if not (isinstance(x, D) and x.is_finite() and abs(x.adjusted()) > 5000)]
    for a in POOL:
        for f in ['int', 'float', 'round', 'floor', 'ceil', 'abs']:
            if n % ctx.nshards == ctx.shard:
                yield ('src', '%s(a)' % f, {'a': a})
                yield ('src', 'a | %s' % f, {'a': a})
            n += 1
        for nd in [0, 1, 2, -1, -5, 30, 40, 100, -100, D('2'), 10 ** 4, -10 ** 4]:
            if n % ctx.nshards == ctx.shard:
                yield ('src', 'round(a, n)', {'a': a, 'n': nd})
            n += 1
        for b in POOL:
            if n % ctx.nshards == ctx.shard:
                yield ('src', '[min(a, b), max(a, b), sum([a, b]), min([a, b]), max([b, a]), sum([a, b, a, b, a, b, a, b, a, b, a])]', {'a': a, 'b': b})
            n += 1
    # random host numbers (all three types, many magnitudes) x operator x form
    for _ in range(ctx.scale(3000, 60000)):
        yield ('rnd', rnd.getrandbits(48))
    # chains
    for _ in range(ctx.scale(800, 8000)):
        k = rnd.randint(2, 30)
        a = rnd.choice(POOL)
        lines = []
        for _ in range(k):
            form = rnd.random()
            op = rnd.choice(['+', '-', '*', '/', '*', '*'])
            operand = rnd.choice(['x', 'a', 'b', rnd.choice(LITS), 'c[0]', 'len(s)'])
            if form < 0.4:
                lines.append('x %s= %s' % (op, operand))
            elif form < 0.6:
                lines.append('c[0] %s= %s' % (op, operand))
            elif form < 0.8:
                # (no ** once an int-like builtin has run in this chain: with the known finding intlike-expands-exponent the operand can be an integer
                #  of tens of thousands of digits, and libmpdec then spends 40 s uninterruptibly in one power - a consequence of that finding, not a new one)
                intlike = any('int(' in ln or 'floor(' in ln or 'ceil(' in ln or 'round(' in ln for ln in lines)
                lines.append('x = x %s %s' % (rnd.choice(OPS[:4] if intlike else OPS), operand))
            elif form < 0.9:
                lines.append('x = %s(x)' % rnd.choice(['abs', 'int', 'round', 'floor', 'ceil', 'float']))
            else:
                lines.append('x = sum([x, %s, x])' % operand)
        yield ('src', '\n'.join(lines) + '\nx', {'x': a, 'a': rnd.choice(POOL), 'b': rnd.choice(POOL), 'c': [rnd.choice(POOL)], 's': 'abc'})


def random_number(r):
    """host numbers of all three Python types over many magnitudes and digit counts (the fixed POOL has one of each class)"""
    k = r.randrange(9)
    if k == 0:
        return r.randint(-10 ** 6, 10 ** 6)
    if k == 1:
        return r.choice([1, -1]) * (10 ** r.choice([27, 28, 29, 30, 60, 100, 300, 1000, 4000]) + r.randint(-5, 5))
    if k == 2:
        return r.choice([1, -1]) * r.getrandbits(r.choice([8, 64, 93, 94, 128, 1024, 9000]))
    if k == 3:
        return r.uniform(-1e6, 1e6)
    if k == 4:
        return r.choice([1, -1]) * r.random() * 10.0 ** r.randint(-320, 308)
    if k == 5:
        digits = ''.join(r.choice('0123456789') for _ in range(r.choice([1, 5, 27, 28, 29, 40, 90])))
        return D('%s%sE%d' % (r.choice(['', '-']), digits or '0', r.choice([0, 0, -5, -40, 10, 100, 1000, -1000, 6000, -6000])))
    if k == 6:
        return D(r.randint(-10 ** 9, 10 ** 9)) / D(10 ** r.randint(0, 12))
    if k == 7:
        return r.choice([True, False, 0, 0.0, -0.0, D('-0'), D('0E+100'), D('1E-9999'), D('9.999999999999999999999999999E+9999')])
    return r.choice(POOL)


CGF_NAMES = {'a': 10 ** 30 + 7, 'b': 2.5, 'c': [10 ** 30 + 7, D('1234567890123456789012345678')], 's': 'ab', 'l': [1, 2], 'n': D('1E+1000'), 't': True, 'm': 3}


def case_deadline(case):
    return case[2] + 400 if case[0] == 'cgf' else CASE_DEADLINE


def run_cgf(case, ctx):
    """coverage-guided programs over host numbers of all types: an atheris/libFuzzer process runs THIS check's run_case (every arithmetic node and numeric builtin
    judged) over the instrumented sandbox copy; programs on which an unlisted violation was recorded there are judged again here"""
    from lib import cgdriver
    _, seed, seconds = case
    seeds = ['a * a', 'x = a\nx *= x\nx', 'c[0] *= c[1]\nc', 's * m', 'l * 2', 'x = s\nx *= len(s)\nx', 'n ** 2', 'round(a / 3, 40)', 'int(n)', 'b * a', 't * a', 'sum([a, a, b])', '[a, c[1]] | map(v => v * v)',
             'f = (p, q) => p ** q\nf(a, 2)', '-a * -c[1] / 7', 'x = 2\nx *= x\nx *= x\nx *= x\nx *= x\nx *= x\nx *= x\nx *= x', 'abs(a - n)', 'max(a, b) * min(a, n)']
    out = cgdriver.run(ctx, 'check:C04:src', seed, seconds, seeds)
    if out is None:
        return
    st, fired, _slow = out
    for text in fired:
        ctx.count('programs_on_which_the_oracle_fired_in_the_fuzzing_process')
        before = len(ctx.violations)
        run_case(('src', text, CGF_NAMES), ctx)
        if len(ctx.violations) == before:
            ctx.violation('coverage-guided fuzzing: a violation was recorded in the fuzzing process but not when the program was judged again here', ('src', text, {}), detail={'src': text[:300]})


def run_case(case, ctx):
    import copy
    if case[0] == 'cgf':
        return run_cgf(case, ctx)
    ctx.M1.lambdas.clear()
    if case[0] == 'repo-tests':
        # the repository's own tests as a workload for the arithmetic monitor (every arithmetic node and numeric builtin they evaluate is judged)
        from lib import repotests
        W = ctx.W
        W.case, W.stack = case, []
        j0 = W.judged
        repotests.run(ctx)
        ctx.count('arithmetic_results_judged_during_the_repository_tests', W.judged - j0)
        W.stack = []
        return
    if case[0] == 'rnd':
        r = random.Random(case[1])
        a, b = random_number(r), random_number(r)
        op = r.choice(OPS)
        form = r.randrange(8)
        names = {'a': a, 'b': b, 'c': [a], 'd': {'k': a}}
        src = ['a %s b', 'a %s= b\na', 'c[0] %s= b\nc', 'd["k"] %s= b\nd', '[a, b] | map(v => v %s b)', 'x = a %s b\nx %s= a\nx'.replace('%s', '%s', 1), 'f = (p, q) => p %s q\nf(a, b)', '(a %s b) %s a'][form]
        src = src.replace('%s', op) if form not in (1, 2, 3) or op != '**' else 'a ** b'
        if form == 7 or r.random() < 0.2:
            f = r.choice(['int', 'float', 'round', 'floor', 'ceil', 'abs'])
            src = src + '\n[%s(a), %s(b), round(a, %d), sum([a, b]), min(a, b), max([a, b])]' % (f, f, r.choice([0, 1, -1, 5, 30, -30, 200]))
        case = ('src', src, names)
        ctx.count('random_magnitude_cases')
    _, src, names = case
    W = ctx.W
    W.case = case
    W.stack = []
    before = W.judged
    # one program in five runs against the function table as the repository built it (wrappers out for this call; the node monitor still judges every
    # numeric node value): code that recognises its own builtins by identity takes other paths under wrappers
    unwrapped = zlib.crc32(src.encode('utf-8', 'replace')) % 5 == 0
    if unwrapped:
        ctx.F.clear()
        ctx.F.update(ctx.rawF)
        ctx.count('programs_run_against_the_unwrapped_function_table(node monitor only)')
    try:
        ctx.P.eval(src, copy.deepcopy(names), None, 10 ** 5)
    except Exception as e:
        ctx.count('evals_raising')
        ctx.cov('exception_classes', type(e).__name__)
    finally:
        if unwrapped:
            ctx.F.clear()
            ctx.F.update(ctx.wrapF)
    if W.judged > before:
        ctx.nontriv(src + '\0' + repr(names))
        if ctx.counters['__s'] % 500 == 0:
            ctx.sample({'src': src, 'names': names, 'oracle_exits_judged': W.judged - before})
        ctx.counters['__s'] += 1


def after_timeout(ctx):
    ctx.W.stack = []


def finish(ctx):
    ctx.counters.pop('__s', None)


def conclusive(m):
    c = m['counters']
    for k, n in (('mul_pow_numeric_judged', 2000), ('numeric_node_exits_judged', 2000), ('builtin_exits_judged', 1000)):
        if c.get(k, 0) < n:
            return 'monitor counter %s = %d (< %d)' % (k, c.get(k, 0), n)
    if set(NUM_BUILTINS) - set(m['cover'].get('numeric_builtins_judged', ())):
        return 'numeric builtins never judged: %s' % sorted(set(NUM_BUILTINS) - set(m['cover'].get('numeric_builtins_judged', ())))
    if m['n_timeouts'] > m['evaluations'] * 0.02:
        return 'too many timed-out cases (%d)' % m['n_timeouts']
    return None
