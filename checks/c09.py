"""C09 - lazy and/or/if-else; every other operand evaluated exactly once, left to right.

Monitor: M5 probe kit - every leaf of the expression is a host call t(i) that logs i (and raises when
it is the planned raising probe).  Oracle R5: a small recursive definition of the expected probe log
and value, evaluated on the same abstract shape the text was rendered from (rendering is fully
parenthesised, so shape and text cannot drift apart).
"""
import itertools
import random
from decimal import Decimal

ID = 'C09'
TECHNIQUE = 'trace monitor: ordered probe log at every leaf vs the specified evaluation order R5, all truth assignments and raising positions'
RULE = 'expression shapes built from {13 binary operators, and, or, not, unary -, if-else, host call, method call, pipe call, builtin calls (get, max, list, index_of, join, replace, sorted, pretty, round, split, str, startswith), list, dict, index, 8 slice forms, program-lambda call, index assignment, compound index assignment, name assignment, compound name assignment} nested up to 3 levels, every leaf a probe t(i) (<= 9 probes) or, in variants, a literal (True, False, None, 0, 1, "", "s", [], [0]); for shapes with k <= 6 probes all 2^k truth assignments, otherwise 64 random ones; every probe position as the raising probe; probes return booleans, unique list objects (identity of the deciding operand) or syntax-tree objects of the package; half of the shapes are evaluated on a caching parser (the same tree under every assignment). Non-trivial = the probe log was compared with R5; distinct = distinct (source, assignment, raising position, mode).'
RULE += ' A third value mode gives the probes host-typed values (fresh binary floats, ints, text, tuples, decimals with trailing zeros); the deciding operand is compared by identity.'
RULE += ' A raising probe raises one of 18 exception classes (ProbeError alone or combined with TypeError, KeyError, IndexError, ValueError, LookupError, AttributeError, ZeroDivisionError, ArithmeticError, RuntimeError, StopIteration, OverflowError, ...): it must surface once, unchanged.'
ASSUMPTIONS = ['R5: and/or evaluate the right operand only if undecided and yield the deciding operand; if-else evaluates the condition, then exactly one branch; '
               'everything else evaluates its parts once, left to right (dict: key then value per entry; index assignment: container, key, value), '
               'then applies the operation',
               'rendering parenthesises every sub-shape, so precedence plays no role']
FINDINGS = {}
CASE_DEADLINE = 10

BINOPS = ['+', '-', '*', '/', '**', '==', '!=', '>', '<', '>=', '<=', 'in', 'not in']
SLICES = ['e', ':', 'e:e', 'e:', ':e', 'e::', ':e:', '::e']


class ProbeError(Exception):
    pass


# a host callback may fail with ANY exception class: the probe's failure is raised as a ProbeError that is also a TypeError, KeyError, IndexError, ... -
# classes the library itself catches somewhere (lookup conversion, retry and fallback paths) - and must still surface once, unchanged
PROBE_ERRORS = [ProbeError] + [type('Probe' + b.__name__, (ProbeError, b), {}) for b in
                               (TypeError, KeyError, IndexError, ValueError, LookupError, AttributeError, ZeroDivisionError, ArithmeticError, RuntimeError,
                                StopIteration, OverflowError, AssertionError, NotImplementedError, RecursionError, MemoryError, OSError, UnicodeError)]


class OpError(Exception):
    """the operation itself fails after its operands were evaluated (R5 side)"""


# ------------------------------------------------------------------ shapes
# ('P',) leaf; ('bin', op, a, b); ('and', a, b); ('or', a, b); ('not', a); ('neg', a); ('if', then, cond, else)
# ('call', a...), ('meth', recv, a...), ('pipe', recv, a...), ('lam', a, b), ('list', a...), ('dict', (k, v)...), ('idx', a, b, k), ('slice', form, parts...)
# statements: ('setitem', k, v), ('setitemop', op, k, v), ('assign', v), ('augassign', op, v)
def arity_templates():
    P = ('P',)
    out = []
    for op in BINOPS:
        out.append(lambda a, b, op=op: ('bin', op, a, ('list', b) if op in ('in', 'not in') else b))
    out += [lambda a, b: ('and', a, b), lambda a, b: ('or', a, b), lambda a: ('not', a), lambda a: ('neg', a),
            lambda a, b, c: ('if', a, b, c),
            lambda a, b: ('call', a, b), lambda a: ('call', a), lambda a, b, c: ('call', a, b, c),
            lambda a, b: ('meth', a, b), lambda a: ('meth', a), lambda a, b, c: ('meth', a, b, c),
            lambda a, b: ('pipe', a, b), lambda a: ('pipe', a), lambda a, b, c: ('pipe', a, b, c),
            lambda a, b: ('lam', a, b),
            lambda a, b: ('bcall', 'get', 'DD', a, b), lambda a, b: ('bcall', 'get', 'DE', a, b), lambda a: ('bcall', 'get', 'DD', a),
            lambda a, b: ('bcall', 'max', None, a, b), lambda a, b, c: ('bcall', 'list', None, a, b, c), lambda a, b: ('bcall', 'index_of', 'L', a),
            lambda a, b: ('bcall', 'join', 'L', a), lambda a, b: ('bcall', 'replace', 'S', a, b), lambda a, b: ('bcall', 'sorted', 'L', a, b),
            lambda a, b: ('bcall', 'pretty', 'L', a), lambda a, b: ('bcall', 'round', None, a, b), lambda a, b: ('bcall', 'split', 'S', a, b),
            lambda a: ('bcall', 'str', None, a), lambda a, b: ('bcall', 'startswith', 'S', a),
            lambda a: ('list', a), lambda a, b, c: ('list', a, b, c),
            lambda a, b: ('dict', (a, b)), lambda a, b, c, d: ('dict', (a, b), (c, d)),
            lambda a, b, c: ('idx', a, b, c)]
    for form in SLICES:
        n = form.count('e')
        out.append(eval('lambda %s: ("slice", %r, %s)' % (', '.join('abc'[:n]) or '_=None', form, ', '.join('abc'[:n]) + (',' if n else '')))
                   if n else (lambda form=form: ('slice', form)))
    return out


STATEMENTS = [lambda a, b: ('setitem', a, b), lambda a, b: ('setitemop', '+=', a, b), lambda a, b: ('setitemop', '-=', a, b),
              lambda a: ('assign', a), lambda a: ('augassign', '+=', a), lambda a: ('augassign', '*=', a),
              lambda a, b: ('dsetitem', a, b)]


def nargs(f):
    return f.__code__.co_argcount - len(f.__defaults__ or ())


from lib.refeval import LDec   # a literal number prints plainly also inside containers

LITS = {'True': True, 'False': False, 'None': None, '0': LDec(0), '1': LDec(1), '""': '', '"s"': 's', '[]': [], '[0]': [LDec(0)]}


def with_literals(shape, r, max_variants=6):
    """variants of a shape in which one leaf is a LITERAL instead of a probe (a parser or evaluator that treats
    literal operands specially - folding, fast paths - has to leave the remaining probes' order and count alone)"""
    leaves = []

    def walk(s, path):
        if s == ('P',):
            leaves.append(path)
        elif isinstance(s, tuple):
            for i, x in enumerate(s):
                if isinstance(x, tuple):
                    walk(x, path + (i,))
    walk(shape, ())
    if len(leaves) < 2:
        return

    def put(s, path, new):
        if not path:
            return new
        return s[:path[0]] + (put(s[path[0]], path[1:], new),) + s[path[0] + 1:]
    picks = [(l, t) for l in leaves for t in LITS]
    if len(picks) > max_variants:
        picks = r.sample(picks, max_variants)
    for l, t in picks:
        yield put(shape, l, ('lit', t))


def number(shape, counter):
    """replace ('P',) leaves by ('P', i) in left-to-right textual order"""
    if shape == ('P',):
        counter[0] += 1
        return ('P', counter[0] - 1)
    if isinstance(shape, tuple):
        return tuple(number(x, counter) if isinstance(x, tuple) else x for x in shape)
    return shape


def render(s):
    k = s[0]
    if k == 'P':
        return 't(%d)' % s[1]
    if k == 'lit':
        return s[1]
    R = render
    if k == 'bin':
        return '(%s %s %s)' % (R(s[2]), s[1], R(s[3]))
    if k in ('and', 'or'):
        return '(%s %s %s)' % (R(s[1]), k, R(s[2]))
    if k == 'not':
        return '(not (%s))' % R(s[1])
    if k == 'neg':
        return '(-(%s))' % R(s[1])
    if k == 'if':
        return '(%s if %s else %s)' % (R(s[1]), R(s[2]), R(s[3]))
    if k == 'call':
        return 'f(%s)' % ', '.join(R(a) for a in s[1:])
    if k == 'meth':
        return '(%s).g(%s)' % (R(s[1]), ', '.join(R(a) for a in s[2:]))
    if k == 'pipe':
        return ('((%s) | g(%s))' % (R(s[1]), ', '.join(R(a) for a in s[2:]))) if len(s) > 2 else '((%s) | g)' % R(s[1])
    if k == 'lam':
        return 'lam(%s, %s)' % (R(s[1]), R(s[2]))
    if k == 'bcall':
        args = ([s[2]] if s[2] else []) + [R(a) for a in s[3:]]
        return '%s(%s)' % (s[1], ', '.join(args))
    if k == 'tcall':
        args = [R(a) for a in s[3:]]
        if s[2] == 'call':
            return '%s(%s)' % (s[1], ', '.join(args))
        if s[2] == 'meth':
            return '(%s).%s(%s)' % (args[0], s[1], ', '.join(args[1:]))
        return ('(%s) | %s(%s)' % (args[0], s[1], ', '.join(args[1:]))) if len(args) > 1 else '(%s) | %s' % (args[0], s[1])
    if k == 'list':
        return '[%s]' % ', '.join(R(a) for a in s[1:])
    if k == 'dict':
        return '{%s}' % ', '.join('%s: %s' % (R(a), R(b)) for a, b in s[1:])
    if k == 'idx':
        return '[%s, %s][%s]' % (R(s[1]), R(s[2]), R(s[3]))
    if k == 'slice':
        parts = list(s[2:])
        txt = ''
        for ch in s[1]:
            txt += R(parts.pop(0)) if ch == 'e' else ':'
        return 'L[%s]' % txt
    if k == 'setitem':
        return 'c[%s] = %s' % (R(s[1]), R(s[2]))
    if k == 'dsetitem':
        return 'dd[%s] = %s' % (R(s[1]), R(s[2]))
    if k == 'setitemop':
        return 'c[%s] %s %s' % (R(s[2]), s[1], R(s[3]))
    if k == 'assign':
        return 'x = %s' % R(s[1])
    if k == 'augassign':
        return 'x %s %s' % (s[1], R(s[2]))
    raise ValueError(k)


# ------------------------------------------------------------------ R5
def truthy(v):
    return bool(v)


def r5(s, env):
    """-> value; env = {'plan': [...], 'raise_at': i|None, 'log': []}"""
    k = s[0]
    if k == 'P':
        env['log'].append(s[1])
        if env['raise_at'] == s[1]:
            raise ProbeError(s[1])
        return env['plan'][s[1]]
    if k == 'lit':
        v = LITS[s[1]]
        return list(v) if isinstance(v, list) else v
    if k == 'and':
        a = r5(s[1], env)
        return r5(s[2], env) if truthy(a) else a
    if k == 'or':
        a = r5(s[1], env)
        return a if truthy(a) else r5(s[2], env)
    if k == 'if':
        c = r5(s[2], env)
        return r5(s[1], env) if truthy(c) else r5(s[3], env)
    if k == 'not':
        return not r5(s[1], env)
    try_vals = []
    if k == 'bin':
        a, b = r5(s[2], env), r5(s[3], env)
        return apply_bin(s[1], a, b)
    if k == 'neg':
        a = r5(s[1], env)
        return guard(lambda: -a)
    if k in ('call', 'meth', 'pipe'):
        return [r5(a, env) for a in s[1:]]
    if k == 'lam':
        return [r5(s[1], env), r5(s[2], env)]
    if k == 'tcall':
        # ANY entry of the function table (whatever it does): every argument is evaluated once, in order, before the entry is applied; the outcome itself
        # is not pinned here (value-vs-error differences of the operation are C07's business)
        for a in s[3:]:
            r5(a, env)
        raise OpError('table entry %s: outcome not modelled' % s[1])
    if k == 'bcall':
        # a builtin: every argument is evaluated, in order, before the builtin is applied (R2's own implementation gives the outcome)
        from lib import refeval
        fixed = {'DD': {'True': 1, 'x': 2}, 'DE': {}, 'L': [10, 11, 12, 13], 'S': 'abc abc'}
        args = ([fixed[s[2]]] if s[2] else []) + [r5(a, env) for a in s[3:]]
        return guard(lambda: refeval.BUILTINS[s[1]](*args))
    if k == 'list':
        return [r5(a, env) for a in s[1:]]
    if k == 'dict':
        d = {}
        for a, b in s[1:]:
            kk = r5(a, env)
            vv = r5(b, env)
            d[str(kk)] = vv
        return d
    if k == 'idx':
        a, b, i = r5(s[1], env), r5(s[2], env), r5(s[3], env)
        return guard(lambda: [a, b][keycast(i)])
    if k == 'slice':
        if s[1] == 'e':
            parts = [r5(s[2], env)]
        else:
            # each bound is evaluated and truncated to an integer in turn (the truncation belongs to the bound:
            # an ill-typed bound fails before the next bound is evaluated)
            parts = []
            for p in s[2:]:
                v = r5(p, env)
                parts.append(guard(lambda: None if v is None else int(v)))
        return guard(lambda: do_slice(s[1], parts))
    if k in ('setitem', 'dsetitem'):
        kk, vv = r5(s[1], env), r5(s[2], env)
        return guard(lambda: check_index(k, kk))
    if k == 'setitemop':
        kk, vv = r5(s[2], env), r5(s[3], env)
        return guard(lambda: check_index(k, kk, vv, s[1]))
    if k == 'assign':
        r5(s[1], env)
        return None
    if k == 'augassign':
        v = r5(s[2], env)
        return guard(lambda: aug(s[1], v))
    raise ValueError(k)


def guard(f):
    try:
        return f()
    except ProbeError:
        raise
    except Exception as e:
        raise OpError(type(e).__name__)


def apply_bin(op, a, b):
    def f():
        if op == '+':
            if isinstance(a, str) and not isinstance(b, str):
                return a + str(b)          # string-on-the-left coercion
            return a + b
        if op == '-':
            return a - b
        if op == '*':
            if not isinstance(a, (int, float, Decimal)) or not isinstance(b, (int, float, Decimal)):
                raise TypeError('non-numbers')
            return Decimal(a) * Decimal(b)
        if op == '/':
            return a / b
        if op == '**':
            return Decimal(a) ** Decimal(b)
        if op == '==':
            return a == b
        if op == '!=':
            return a != b
        if op == '>':
            return a > b
        if op == '<':
            return a < b
        if op == '>=':
            return a >= b
        if op == '<=':
            return a <= b
        if op == 'in':
            return a in b
        if op == 'not in':
            return a not in b
        raise ValueError(op)
    return guard(f)


def do_slice(form, parts):
    L = [10, 11, 12, 13]
    p = list(parts)
    idx = []
    cur = None
    seq = []
    for ch in form:
        seq.append(p.pop(0) if ch == 'e' else ':')
    if form == 'e':
        return L[keycast(seq[0])]
    # lower as the grammar does: missing parts are None
    fields = {'e:e': (0, 2), 'e:': (0, None), ':e': (None, 1), 'e::': (0, None, None), ':e:': (None, 1, None), '::e': (None, None, 2), ':': (None, None)}
    # positions of e's in seq map to start/stop/step
    start = stop = step = None
    es = [x for x in seq if x != ':']
    if form == 'e:e':
        start, stop = es
    elif form == 'e:':
        start = es[0]
    elif form == ':e':
        stop = es[0]
    elif form == 'e::':
        start = es[0]
    elif form == ':e:':
        stop = es[0]
    elif form == '::e':
        step = es[0]
    c = lambda v: None if v is None else int(v)
    return L[slice(c(start), c(stop), c(step))]


def keycast(k):
    return int(k) if isinstance(k, Decimal) else k


def check_index(kind, key, value=None, op=None):
    if kind == 'dsetitem':
        return None
    c = [0, 0]
    key = keycast(key)
    if op is None:
        c[key] = 1
    elif op == '+=':
        c[key] += value
    else:
        c[key] -= value
    return None


def aug(op, v):
    x = 1
    if op == '+=':
        x += v
    else:
        if not isinstance(v, (int, float, Decimal)):
            raise TypeError
        x = Decimal(x) * Decimal(v)
    return None


# ------------------------------------------------------------------ workload
def setup(ctx):
    from smartquery import SqParser
    ctx.P = SqParser()
    ctx.PC = SqParser(parse_cache={})     # half of the shapes are evaluated on a caching parser: the same tree is re-evaluated under every assignment
    ctx.templates = arity_templates()
    from smartquery import functions as _functions
    from lib import gram as _gram
    ctx.table_names = sorted(set(_functions.FUNCTIONS) | set(_gram.table_names()))
    ctx.log = []

    def t(i):
        i = int(i)
        ctx.log.append(i)
        if ctx.raise_at == i:
            raise ctx.raise_cls(i)
        return ctx.plan[i]
    ctx.t = t
    ctx.raise_at = None
    ctx.raise_cls = ProbeError
    ctx.plan = []
    # values that happen to be syntax-tree objects of the package (a host may keep parsed programs in its data): they are VALUES here
    from smartquery.ast_ops import LambdaOp, NameOp
    OP_VALUES[:] = [ctx.P.parse('t(99)'), LambdaOp(args=[NameOp('q')], expr=ctx.P.parse('t(98)')), ctx.P.parse('t(97) + 1')]


def shapes(ctx):
    """exhaustive: every template with probes; every template with one child replaced by every template (with probes);
    random: deeper nestings"""
    P = ('P',)
    T = ctx.templates
    n = 0
    for f in T + STATEMENTS:
        k = nargs(f)
        yield f(*[P] * k)
        for pos in range(k):
            for g in T:
                args = [P] * k
                args[pos] = g(*[P] * nargs(g))
                yield f(*args)
    rnd = ctx.rnd

    def rand_shape(d):
        if d <= 0 or rnd.random() < 0.25:
            return P
        g = rnd.choice(T)
        return g(*[rand_shape(d - 1) for _ in range(nargs(g))])
    for _ in range(ctx.scale(300, 2500) * ctx.nshards):
        top = rnd.choice(T + STATEMENTS) if rnd.random() < 0.3 else rnd.choice(T)
        yield top(*[rand_shape(2) for _ in range(nargs(top))])


def cases(ctx):
    n = 0
    r = random.Random(ctx.seed * 7919 + 11)
    for sh in shapes(ctx):
        for variant in [sh] + list(with_literals(sh, r, 2 if ctx.quick else 4)):
            cnt = [0]
            s = number(variant, cnt)
            k = cnt[0]
            if k > 9 or k < 1:
                continue
            if n % ctx.nshards == ctx.shard:
                yield ('shape', s, k, ctx.rnd.getrandbits(32))
            n += 1
    for sh in table_call_shapes(ctx):
        cnt = [0]
        s = number(sh, cnt)
        if n % ctx.nshards == ctx.shard:
            yield ('shape', s, cnt[0], ctx.rnd.getrandbits(32))
        n += 1


def table_call_shapes(ctx):
    """every entry of the function table of the tree under test, called with 1-3 probes in call / method / pipe spelling"""
    P = ('P',)
    for name in ctx.table_names:
        for k in (1, 2, 3):
            for form in ('call', 'meth', 'pipe'):
                yield ('tcall', name, form) + (P,) * k


def host(ctx, mode):
    return {'t': ctx.t, 'f': lambda *a: list(a), 'g': lambda *a: list(a), 'c': [0, 0], 'dd': {}, 'x': 1, 'L': [10, 11, 12, 13], 'DD': {'True': 1, 'x': 2}, 'DE': {}, 'S': 'abc abc'}


OP_VALUES = []


def plan_values(mode, bits):
    if mode == 'bool':
        return [bool(b) for b in bits]
    if mode == 'op':
        return [OP_VALUES[i % len(OP_VALUES)] if b else None for i, b in enumerate(bits)]
    if mode == 'host':
        # host values of the Python types a names mapping may hold (binary floats, ints, text, tuples, decimals with trailing zeros), each a fresh object
        out = []
        for i, b in enumerate(bits):
            kind = i % 5
            if kind == 0:
                out.append(float(i) + 0.5 if b else float('0.0') * -1.0 if i % 2 else float('0.0'))
            elif kind == 1:
                out.append(10 ** 6 + i if b else 0)
            elif kind == 2:
                out.append('s%d' % i if b else '')
            elif kind == 3:
                out.append((i,) if b else ())
            else:
                out.append(Decimal('1.50') if b else Decimal('0.00'))
        return out
    return [[i] if b else [] for i, b in enumerate(bits)]


def run_case(case, ctx):
    _, s, k, sub = case
    r = random.Random(sub)
    src = 'lam = (a, b) => [a, b]\n' + render(s)
    if k <= 6:
        assignments = list(itertools.product([0, 1], repeat=k))
        if ctx.quick and k > 4:
            assignments = r.sample(assignments, 16)
    else:
        assignments = [tuple(r.randrange(2) for _ in range(k)) for _ in range(64 if not ctx.quick else 12)]
    statement = s[0] in ('setitem', 'dsetitem', 'setitemop', 'assign', 'augassign')
    cached = sub % 2 == 0
    ctx.count('shapes_on_caching_parser' if cached else 'shapes_on_plain_parser')
    for bits in assignments:
        for mode in (('bool', 'obj', 'op') if (sub % 3 == 0 and s[0] in ('and', 'or', 'if', 'not', 'call', 'list', 'dict', 'meth', 'pipe')) else
                     ('bool', 'obj', 'host') if (sub % 3 == 1 and s[0] in ('and', 'or', 'if')) else ('bool', 'obj')):
            for raise_at in [None] + (list(range(k)) if (not ctx.quick or r.random() < 0.25) else [r.randrange(k)] if k else []):
                ctx.evaluations += 1
                plan = plan_values(mode, bits)
                env = {'plan': plan, 'raise_at': raise_at, 'log': []}
                try:
                    exp = ('value', r5(s, env))
                except ProbeError:
                    exp = ('probe-error', None)
                except OpError as e:
                    exp = ('op-error', str(e))
                ctx.log[:] = []
                ctx.plan, ctx.raise_at = plan, raise_at
                ctx.raise_cls = PROBE_ERRORS[(sub + (raise_at or 0) + len(bits)) % len(PROBE_ERRORS)]
                if raise_at is not None:
                    ctx.cov('classes_of_the_raising_probe', ctx.raise_cls.__name__)
                try:
                    got = ('value', (ctx.PC if cached else ctx.P).eval(src, host(ctx, mode), None, 10 ** 4))
                except ProbeError:
                    got = ('probe-error', None)
                except Exception as e:
                    got = ('op-error', type(e).__name__)
                ctx.count('logs_compared')
                ctx.nontriv('%s|%s|%s|%s' % (src, bits, raise_at, mode))
                ctx.cov('top_constructors', s[0] if s[0] != 'bin' else 'bin ' + s[1])
                detail = {'src': src, 'plan': [bool(b) for b in bits], 'mode': mode, 'raise_at': raise_at,
                          'expected_log': env['log'], 'observed_log': list(ctx.log), 'expected': repr(exp)[:120], 'got': repr(got)[:120]}
                sub_case = ('one', s, k, bits, mode, raise_at)
                if list(ctx.log) != env['log']:
                    what = 'probe order/laziness: observed log differs from the specified one'
                    if sorted(ctx.log) == sorted(env['log']) and len(set(ctx.log)) == len(ctx.log):
                        what = 'operands evaluated in the wrong order'
                    elif len(ctx.log) > len(env['log']):
                        what = 'an operand that must not be evaluated was evaluated (or evaluated twice)'
                    elif len(ctx.log) < len(env['log']):
                        what = 'an operand that must be evaluated was skipped'
                    ctx.violation(what, case, detail=detail)
                    return
                if exp[0] != got[0]:
                    if raise_at is not None and exp[0] == 'probe-error':
                        ctx.violation('a raising probe did not propagate', case, detail=detail)
                        return
                    if exp[0] == 'value' or got[0] == 'value':
                        # value-level disagreement of a non-lazy operation is C07's business, not counted here
                        ctx.count('value_vs_error_differences_ignored(C07 territory)')
                    continue
                if exp[0] == 'value' and not statement and s[0] in ('and', 'or', 'if'):
                    ctx.cov('literal_operands', any(isinstance(x, tuple) and x[:1] == ('lit',) for x in s[1:]))
                    ctx.count('deciding_operand_checks')
                    ok = (got[1] is exp[1]) if (mode in ('obj', 'op', 'host') and any(exp[1] is p for p in plan)) else (got[1] == exp[1])
                    if mode == 'host':
                        ctx.count('deciding_operand_checks_with_host_typed_values')
                    if not ok:
                        ctx.violation('and/or/if-else did not yield the deciding operand itself', case, detail=detail)
                        return
    if ctx.counters['logs_compared'] % 50 < 2:
        ctx.sample({'src': src, 'probes': k})


def conclusive(m):
    c = m['counters']
    if c.get('logs_compared', 0) < 20000:
        return 'only %d logs compared' % c.get('logs_compared', 0)
    if c.get('deciding_operand_checks', 0) < 500:
        return 'too few deciding-operand checks'
    if len(m['cover'].get('top_constructors', ())) < 30:
        return 'constructor coverage too small'
    return None
