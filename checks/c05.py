"""C05 - the regular-expression builtins cannot hang the host.

Monitor: M9 - CPU time (time.process_time) of one match / match_groups / match_all call made through
SqParser.eval in a single-threaded worker, plus a parent-side hard watchdog per case that reads the
CPU the worker burnt (/proc/<pid>/stat) before killing it.  Oracle: CPU <= bound(pattern, subject).
"""
import random
import time

ID = 'C05'
TECHNIQUE = 'runtime monitor: CPU-time bound per regex builtin call with a parent-side hard watchdog reading /proc CPU before killing'
BOUND_CONST, BOUND_PER_PATTERN_CHAR, BOUND_PER_SUBJECT_CHAR = 0.6, 50e-6, 5e-6
REPEAT_CONST = 0.3      # constant of the bound for an immediate repeat of a call (no compilation left): 6x the 50 ms timeout
RULE = '(function, pattern, subject, flags[, extra arguments]) with function in {match, match_groups, match_all}; pattern families: nested and overlapping quantifiers, alternations, counted repeats, (a?){n}a{n}, back-references, lookaround with quantified bodies, atomic/possessive groups, recursion, fuzzy and reverse matching, POSIX and V1 set operations, group-less adjacent quantifiers, many moderately expensive matches / sub-timeout segments in one subject, long literals / alternations / classes (<= 20000 chars), random compositions; adversarial subjects of 10 .. 10^5 chars; flag strings: every single letter, pairs, i/m/s combinations, garbage, long strings of flag letters with an invalid tail, None; 4th/5th arguments; sequences of 2-5 regex calls in ONE evaluation (costly-to-compile harmless patterns first, a catastrophic one last). Bound: CPU <= 0.60 s + 50 us x len(pattern) + 5 us x len(subject) per call (sum for a sequence). Non-trivial = the call (sequence) was timed against the bound; distinct = distinct (function, pattern, subject length, flags).'
RULE += ' Sequences also place a call that runs into the timeout (swallowed by the host callback) before - also directly before - the last call; a third of the single calls pass the subject or the pattern as a str subclass that reports a length of its own (10^10 or 0).'
ASSUMPTIONS = ['CPU time of the calling thread (not wall time) is the measure; a case killed by the hard watchdog is a violation only if the worker had burnt more CPU than the bound',
               'the bound has >= 3x head-room over everything measured on the unchanged tree (catastrophic patterns abort after 0.05-0.17 s CPU; compile <= 17 us/char)',
               'pattern length <= 20000 characters']
FINDINGS = {
    'long-literal-fast-search-tables': 'a pattern containing a long literal (>= ~1500 chars) searched in a subject at least as long as the literal: the regex engine '
                                       'builds its fast-search tables (quadratic..cubic in the literal length) outside the timeout',
}
CASE_DEADLINE = 600          # the soft deadline cannot interrupt a C call; the parent watchdog decides
JOURNAL = True
JOURNAL_PICKLE = True
CASE_HARD_TIMEOUT = 12       # wall seconds without journal progress -> kill and judge by CPU burnt
FUNCS = ['match', 'match_groups', 'match_all']


_META = set('\\^$.|?*+()[]{}')


def literal_run(pattern):
    """longest run of consecutive literal characters in the pattern"""
    best = cur = 0
    for ch in pattern:
        if ch in _META:
            cur = 0
        else:
            cur += 1
            best = max(best, cur)
    return best


def classify(pattern, subject_len):
    run = literal_run(pattern)
    if run >= 400 and subject_len >= run:
        return 'long-literal-fast-search-tables'
    return None


def bound(pattern, subject):
    return BOUND_CONST + BOUND_PER_PATTERN_CHAR * len(pattern) + BOUND_PER_SUBJECT_CHAR * len(subject)


def setup(ctx):
    from smartquery import SqParser
    ctx.P = SqParser()


def families(r):
    """-> (family name, pattern, subject)"""
    n = r.choice([20, 24, 28, 32, 40, 60, 100, 500, 3000, 20000, 100000])
    a = 'a' * n
    m = r.choice([18, 22, 26, 30])
    fam = [
        ('nested-plus', r'(a+)+$', a + '!'),
        ('nested-star', r'(a*)*b', a),
        ('nested-named', r'(?P<x>a+)+c', a + 'b'),
        ('alt-overlap', r'(a|aa)+$', a + '!'),
        ('alt-optional', r'(a|a?)+$', a + '!'),
        ('dot-star-count', r'(.*a){%d}' % r.choice([8, 12, 20]), a + 'b'),
        ('counted-nested', r'(?:a{1,100}){1,100}b', a),
        ('optional-n', r'(?:a?){%d}a{%d}' % (m, m), 'a' * m),
        ('backref', r'(a*)\1*b', a),
        ('backref-2', r'^(a+)(a+)\2\1*$', a + '!'),
        ('lookahead', r'(?=(a+)+b)a', a),
        ('lookbehind', r'(?<=(?:a|aa)+)b$', a + 'c'),
        ('atomic-inside', r'(?:(?>a+)|a)+b', a),
        ('possessive-alt', r'(?:a++|a)*b', a),
        ('recursion', r'(?:a(?R)?a|aa?)+b', a),
        ('fuzzy', r'(?:(?:a+)+b){e<=2}c', a + 'x'),
        ('fuzzy-best', r'(?b)(?:a+b){e<=3}$', a + 'xyz'),
        ('fuzzy-enh', r'(?e)((?:a|aa)+b){e<=1}c', a),
        ('reverse', r'(?r)b(a+)+', '!' + a),
        ('posix', r'(?p)(a|aa)+b', a),
        ('v1-sets', r'(?V1)(?:[[\w]--[\d]]+)+\d!', a),
        ('grapheme', r'(?:\X+)+!', a),
        ('unicode-prop', r'(?:\p{L}+\s?)+$', ('w' * 10 + ' ') * (n // 11 + 1) + '1'),
        ('groupless-poly', r'\w*\w*\w*\w*\w*\w*\d$', a + '!'),
        ('groupless-poly-2', r'a*a*a*a*a*a*a*[bc].', a + 'd'),
        ('groupless-dots', r'.*.*.*.*.*=x', a),
        ('groupless-space', r'\s*\s*\s*\s*\s*\S\S', ' ' * n + 'x'),
        ('groupless-class', r'[a-z]*[a-z]*[a-z]*[a-z]*[a-z]*[0-9]!', a + '1'),
        ('many-matches', r'(?:a|aa)+b|c', ('a' * r.choice([14, 17, 19, 21]) + 'c ') * r.choice([50, 300, 1500])),
        ('many-matches-2', r'(a+)+b|\s', ('a' * r.choice([14, 16, 18]) + ' ') * r.choice([100, 1000])),
        ('many-matches-lazy', r'(?:a|a?)+?c|d', ('a' * 15 + 'd') * r.choice([100, 2000])),
        ('many-segments', r'(a|aa)+$|b', ('a' * r.choice([16, 18, 20]) + 'b') * r.choice([100, 360, 1000])),
        ('long-literal', ''.join(r.choice('abcdefgh') for _ in range(r.choice([100, 300, 1000, 1600]))), a),
        ('long-alternation', '|'.join('w%d' % i for i in range(r.choice([50, 2000, 3000]))), a + ' w1999x'),
        ('long-class', '[' + ''.join(chr(0x100 + i) for i in range(r.choice([100, 5000]))) + ']+$', a),
        ('long-nested-parens', '(' * 200 + 'a' + ')*' * 200 + 'b', a),
        ('benign', r'\d+', 'abc 123 ' * (n // 8 + 1)),
        ('benign-anchored', r'^\w+$', a),
        ('empty-pattern', '', a),
        ('invalid-pattern', r'(a+', a),
    ]
    return r.choice(fam)


FRAGS = ['(a+)+', '(a|aa)*', '(?:a?){20}', 'a{1,50}', '(a*)*', r'(a+)\1', '.*', r'\w*', '(?=a+)', '(?>a+)', 'b', '$', '^', 'c?', '[ab]+', '(?:ab|a)+', r'\s*', '(a|b|ab)+', 'a*?', '(?:a+){2,}']
FLAGS = ['', 'i', 'm', 's', 'ims', 'IMS', 'x', 'imsx', 'zzz', ' ', 'i,m,s', 'ims' * 12 + 'x', 'i, m, s ' * 10 + '?', 'ims' * 2000, 'smi' * 9 + '!', None] + \
        list('abcdefghjklnopqrtuvwyz') + list('ABFLOPRUVW') + ['io', 'oi', 'ao', 'bm', 'es', 'fi', 'rw', 'pv', 'is o']


def cases(ctx):
    rnd = ctx.rnd
    n = 0
    if ctx.shard == 0:
        # directed: one representative per mechanism seen to matter, for each function
        for f in FUNCS:
            yield ('call', f, r'(a+)+$', 'a' * 40 + '!', '', 'directed')
            yield ('call', f, r'\w*\w*\w*\w*\w*\w*\d$', 'a' * 3000 + '!', '', 'directed')
            yield ('call', f, r'(?:a|aa)+b|c', ('a' * 21 + 'c ') * 300, '', 'directed')
            yield ('call', f, 'a', 'a', 'ims' * 12 + 'x', 'directed')
            yield ('call', f, 'a', 'a' * 100000, 'i', 'directed')
            yield ('call', f, r'(a|aa)+$|b', ('a' * 20 + 'b') * 360, '', 'directed-extra-args')
            yield ('call', f, r'(a|aa)+$|b', ('a' * 18 + 'b') * 1000, 'i', 'directed-extra-args')
        r1 = random.Random(1)
        lit = ''.join(r1.choice('abcdefgh') for _ in range(2000))
        yield ('call', 'match', lit, 'a' * 2001, '', 'directed-long-literal')
        yield ('call', 'match_all', 'x?' + 'ab' * 1000, 'b' * 2500, 'i', 'directed-long-literal')
    # several regex calls in ONE evaluation: harmless but costly-to-compile patterns first, a catastrophic one last
    # (a budget, counter or cache shared by the calls of one evaluation must not switch the protection off)
    for _ in range(ctx.scale(6, 120)):
        r = random.Random(rnd.getrandbits(48))
        calls = []
        for _ in range(r.randint(1, 4)):
            words = r.choice([800, 2000, 3300])
            tag = r.choice('uvwxyz') + str(r.randrange(10 ** 6))
            calls.append((r.choice(FUNCS), '|'.join('%s%d' % (tag, i) for i in range(words)), 'x', ''))
        EVIL = [(r'(a+)+$', 'a' * 40 + '!'), (r'(a|aa)+$', 'a' * 60 + '!'), (r'\w*\w*\w*\w*\w*\w*\d$', 'a' * 3000 + '!'), (r'(?:a|aa)+b|c', ('a' * 21 + 'c ') * 300)]
        if r.random() < 0.5:
            # a call that times out (the host callback swallows the error) BEFORE the other calls: a failure must not disarm what follows
            # (these three are observed to run into the 50 ms timeout with the regex engine in use; (a+)+$ is optimised away by it)
            e0 = r.choice([(r'(a|aa)+$', 'a' * 60 + '!'), (r'\w*\w*\w*\w*\w*\w*\d$', 'a' * 3000 + '!'), (r'(a|a)+$', 'a' * 40 + '!')])
            calls.insert(r.randrange(len(calls) + 2) if len(calls) > 1 else 1, (r.choice(FUNCS), e0[0], e0[1], ''))
        evil = r.choice(EVIL)
        calls.append((r.choice(FUNCS), evil[0], evil[1], ''))
        yield ('seq', calls)
    for _ in range(ctx.scale(90, 1500)):
        r = random.Random(rnd.getrandbits(48))
        if r.random() < 0.8:
            name, p, s = families(r)
        else:
            name = 'composed'
            p = ''.join(r.choice(FRAGS) for _ in range(r.randint(2, 5)))
            s = 'a' * r.choice([25, 30, 40, 200, 5000]) + r.choice(['', '!', 'b', 'c'])
        if len(p) > 20000:
            p = p[:20000]
        fl = r.choice(FLAGS) if r.random() < 0.6 else ''
        yield ('call', FUNCS[n % 3], p, s, fl, name)
        n += 1


class LyingStr(str):
    def __new__(cls, text, n):
        o = str.__new__(cls, text)
        o.n = n
        return o

    def __len__(self):
        return self.n


def run_seq(case, ctx):
    calls = case[1]
    names, parts, b = {}, [], 0.0
    for i, (fn, p, subj, fl) in enumerate(calls):
        names['s%d' % i], names['p%d' % i] = subj, p
        parts.append('try_(v => %s(s%d, p%d), 0)' % (fn, i, i))
        b += bound(p, subj)

    def try_(f, *a):
        try:
            return f(*a)
        except Exception:
            return None
    names['try_'] = try_
    src = '[' + ', '.join(parts) + ']'
    t0 = time.process_time()
    try:
        ctx.P.eval(src, names, None, 1000)
        outcome = 'returned'
    except Exception as e:
        outcome = type(e).__name__
    dt = time.process_time() - t0
    ctx.count('sequences_timed')
    ctx.count('calls_timed', len(calls))
    ctx.nontriv('seq|' + '|'.join('%s:%d:%d' % (c[0], len(c[1]), len(c[2])) for c in calls) + calls[-1][1])
    ctx.cov('function_x_family', '%s/sequence-in-one-eval' % calls[-1][0])
    if dt >= 0.03:
        ctx.count('hostile_cases(cpu>=30ms)')
    if dt > b:
        ctx.violation('%d regex calls in one evaluation burnt %.2f s CPU (sum of bounds %.2f s)' % (len(calls), dt, b), case,
                      detail={'calls': [(c[0], c[1][:40], len(c[1]), len(c[2])) for c in calls], 'cpu_s': round(dt, 3), 'bound_s': round(b, 3), 'outcome': outcome})


def run_case(case, ctx):
    if case[0] == 'seq':
        return run_seq(case, ctx)
    _, fn, pattern, subject, flags, family = case
    names = {'s': subject, 'p': pattern}
    wrap = (len(pattern) * 7 + len(subject)) % 9
    if wrap in (0, 1, 2):
        # host strings that are str subclasses reporting a length of their own (a preview, a fixed-width field): the bound is in the real lengths
        names['s' if wrap != 2 else 'p'] = LyingStr(subject if wrap != 2 else pattern, 10 ** 10 if wrap == 0 else 0)
        ctx.count('calls_with_a_str_subclass_reporting_its_own_length')
    if flags is None:
        src = '%s(s, p)' % fn
    else:
        src = '%s(s, p, fl)' % fn
        names['fl'] = flags
        extra = (len(pattern) + len(subject)) % 7 if not family.startswith('directed') else (3 if family != 'directed-extra-args' else 1)
        if extra in (1, 2):
            # rarely used / not (yet) existing optional arguments: a call with more arguments must be just as bounded
            src = '%s(s, p, fl, %s)' % (fn, ['10000', '5', 'None', '1000000', 'True'][(len(pattern) * 3 + len(subject)) % 5])
            if extra == 2:
                src = src[:-1] + ', 7)'
    b = bound(pattern, subject)
    t0 = time.process_time()
    w0 = time.time()
    outcome = 'returned'
    try:
        ctx.P.eval(src, names, None, 1000)
    except Exception as e:
        outcome = type(e).__name__
    dt = time.process_time() - t0
    ctx.count('calls_timed')
    ctx.count('outcome_' + outcome)
    ctx.cov('function_x_family', '%s/%s' % (fn, family))
    ctx.nontriv('%s|%s|%d|%s' % (fn, pattern[:200], len(subject), flags))
    if dt >= 0.03:
        ctx.count('hostile_cases(cpu>=30ms)')
    ctx.counters['max_cpu_ms'] = max(ctx.counters['max_cpu_ms'], int(dt * 1000))
    ctx.counters['max_cpu_over_bound_permille'] = max(ctx.counters['max_cpu_over_bound_permille'], int(1000 * dt / b))
    if classify(pattern, len(subject)) is None:
        ctx.counters['max_cpu_ms(cases outside the known finding)'] = max(ctx.counters['max_cpu_ms(cases outside the known finding)'], int(dt * 1000))
        ctx.counters['max_cpu_over_bound_permille(cases outside the known finding)'] = max(ctx.counters['max_cpu_over_bound_permille(cases outside the known finding)'], int(1000 * dt / b))
    if dt > b:
        ctx.violation('%s burnt %.2f s CPU (bound %.2f s)' % (fn, dt, b), case, finding=classify(pattern, len(subject)),
                      detail={'function': fn, 'family': family, 'pattern': pattern[:200], 'subject_len': len(subject), 'flags': flags,
                              'cpu_s': round(dt, 3), 'wall_s': round(time.time() - w0, 3), 'bound_s': round(b, 3), 'outcome': outcome})
    if dt >= 0.03 and dt <= b:
        # the same call again at once: the compiled pattern is cached by the engine now, what is left is matching under the timeout - held to a tighter constant
        b2 = REPEAT_CONST + BOUND_PER_PATTERN_CHAR * len(pattern) + BOUND_PER_SUBJECT_CHAR * len(subject)
        t1 = time.process_time()
        try:
            ctx.P.eval(src, names, None, 1000)
        except Exception:
            pass
        dt2 = time.process_time() - t1
        ctx.count('repeated_calls_timed')
        ctx.counters['max_cpu_ms_of_a_repeated_call'] = max(ctx.counters['max_cpu_ms_of_a_repeated_call'], int(dt2 * 1000))
        if classify(pattern, len(subject)) is None:
            ctx.counters['max_cpu_over_bound_permille_of_a_repeated_call(outside the known finding)'] = max(
                ctx.counters['max_cpu_over_bound_permille_of_a_repeated_call(outside the known finding)'], int(1000 * dt2 / b2))
        if dt2 > b2:
            ctx.violation('%s, called again with a pattern the engine has already compiled, burnt %.2f s CPU (bound %.2f s)' % (fn, dt2, b2), case, finding=classify(pattern, len(subject)),
                          detail={'function': fn, 'family': family, 'pattern': pattern[:200], 'subject_len': len(subject), 'flags': flags, 'cpu_s': round(dt2, 3), 'bound_s': round(b2, 3)})
    if ctx.counters['calls_timed'] % 40 == 1:
        ctx.sample({'function': fn, 'family': family, 'pattern': pattern[:80], 'subject_len': len(subject), 'flags': flags, 'cpu_s': round(dt, 4), 'outcome': outcome})


def judge_hang(h):
    """parent side: a case the hard watchdog had to kill"""
    import base64
    import pickle
    j = h['journal'] or {}
    cpu = h.get('cpu_s')
    try:
        case = pickle.loads(base64.b64decode(j['pickle']))
        if case[0] == 'seq':
            b = sum(bound(c[1], c[2]) for c in case[1])
            if cpu is not None and cpu >= b:
                return {'finding': None, 'what': 'regex calls in one evaluation did not return: killed after %.0f s wall having burnt %.1f s CPU' % (h['wall_s'], cpu),
                        'case': ['seq', [(c[0], c[1][:40], len(c[1]), len(c[2])) for c in case[1]]], 'detail': {'cpu_s': cpu, 'bound_s': round(b, 2)}, 'pickle': j.get('pickle')}
            return None
        b = bound(case[2], case[3])
        finding = classify(case[2], len(case[3]))
        shown = ['call', case[1], case[2][:120], 'subject of %d chars' % len(case[3]), case[4], case[5]]
    except Exception:
        case, b, finding, shown = None, 6.0, None, j.get('case')
    if cpu is not None and cpu >= b:
        return {'finding': finding, 'what': 'a regex builtin did not return: killed after %.0f s wall having burnt %.1f s CPU' % (h['wall_s'], cpu),
                'case': shown, 'detail': {'cpu_s': cpu, 'wall_s': h['wall_s'], 'bound_s': round(b, 2)}, 'pickle': j.get('pickle')}
    return None


def finish(ctx):
    pass


def conclusive(m):
    c = m['counters']
    if c.get('calls_timed', 0) < 500:
        return 'only %d calls timed' % c.get('calls_timed', 0)
    if c.get('hostile_cases(cpu>=30ms)', 0) < 0.1 * c['calls_timed']:
        return 'workload not hostile enough: %d of %d calls took >= 30 ms CPU' % (c.get('hostile_cases(cpu>=30ms)', 0), c['calls_timed'])
    if len(m['cover'].get('function_x_family', ())) < 90:
        return 'function x family table has holes (%d cells)' % len(m['cover'].get('function_x_family', ()))
    return None
