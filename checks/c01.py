"""C01 - the op budget is enforced exactly, on every evaluation path.

Monitors: M1 counts node evaluations independently of the implementation's own counter (and notes which VM
state each one was charged to); M5 probes (emit, try_, hm) and a recording names mapping plus M3 wrappers
on the mutators log every host-visible effect together with the number of node evaluations started so far.
Oracle: offline threshold / prefix checker over those logs - T is measured by M1 in an unbounded run, every
budget N in 1..min(T+2, 60) (plus random larger ones and the default) is then replayed on fresh host objects.
"""
import copy
import random
from decimal import Decimal

from lib import gen2, monitors

import re

ID = 'C01'
TECHNIQUE = "runtime monitor: independent node-entry counter (M1) + probe/effect log, offline threshold and prefix checker over every budget 1..T+2; workloads: type-directed programs, coverage-guided programs (atheris), the repository's tests"
ADDR = re.compile(r'0x[0-9a-f]+')
RULE = "programs: (i) type-directed programs of G2 (all node kinds, lambdas driven by map/filter/reduce/sorted) extended with host probes emit(...), host callbacks hm(f, n), try_(f, ...) (which swallows the error and lets the program continue) and reenter(k) (which evaluates another program on the same parser while the call is in flight); (ii) scoping scenarios with recursive and re-entrant lambdas; (iii) a program lambda handed to every entry of the function table; (iv) helper lambdas compiled by the host and supplied through ast_names, called repeatedly; each on a plain parser and on one with a parse cache (the same text evaluated repeatedly). For every program: one 'unbounded' run (budget 20000), then every budget N in 1..min(T+2, 60), random N up to T+2, and the default. Histories: 2-6 eval calls sharing one names mapping, call i defining a lambda that call j > i invokes under a different budget. Non-trivial = a (program, N) pair in which the run was compared with the unbounded run (threshold, abort point, monotonicity, effect prefix, counter equality); distinct = distinct (program text, N, parser kind)."
RULE += ' Every program also runs under two budgets far above any need (10^6 ... 10^20000, integers too long to print included).'
RULE += ' Host values objs(f, n) whose __eq__/__lt__/__bool__/__str__ call the program lambda f are searched, sorted, compared, tested and printed by builtins (the callbacks are charged to the call).'
RULE += " One more workload: the repository's own test-suite run under the node monitor (per VM state: operations charged == node evaluations observed <= budget)."
RULE += " Coverage-guided programs: one atheris/libFuzzer process per worker (6 s quick, 120 s thorough) runs this check's own judgement on generated program texts over the instrumented sandbox copy; programs on which an unlisted violation was recorded there are judged again by the worker."
ASSUMPTIONS = ['an operation = one evaluation of a syntax-tree node, counted by M1 at the entry of every concrete node class\'s eval (independent of Op.eval)',
               'a run with budget N returns normally iff the unbounded run needs T < N operations; otherwise it raises the ops-limit error at the N-th node entry, before any effect of that node',
               'host-visible effects = probe calls, writes to the host names mapping, mutator calls (each logged with its arguments); an aborted run\'s log must be a prefix of the unbounded run\'s']
FINDINGS = {
    'stale-lambda-state': 'a lambda stored in the shared names mapping by an earlier eval keeps that call\'s VM state: its body is charged to the old counter against the old budget',
}
CASE_DEADLINE = 60
HUGE_BUDGETS = [10 ** 6, 10 ** 9, 2 ** 31, 2 ** 63, 2 ** 64 + 1, 10 ** 30, 10 ** 100, 10 ** 4299, 10 ** 4300, 10 ** 5000, 10 ** 20000]
UNBOUNDED = 20000      # budget of the 'unbounded' reference run; programs that need more are dropped (counted)
D = Decimal
MUTATORS = ['push', 'pop', 'insert', 'remove', '__setitem__', '__setitem_with_op__', '__delitem__']


class Recorder:
    """everything a host can observe of one eval call"""

    def __init__(self, ctx):
        self.ctx = ctx
        self.log = []
        self.enters = 0
        self.states = {}        # id(state) -> enters charged to it
        self.first_state = None
        self.state_objs = {}
        self.stack = []
        self.aborted = 0            # node entries refused at once by the budget check (no nested entry, no effect)
        self.first_abort = None
        self.depth = 0              # > 0 while a host callback has re-entered eval on the same parser (that call has its own budget)
        self.nested = 0

    def event(self, *what):
        self.log.append((self.enters,) + what)


class NamesLog(dict):
    def __init__(self, base, rec):
        super().__init__(base)
        self.rec = rec

    def __setitem__(self, k, v):
        self.rec[0].event('names-write', k, brief(v))
        dict.__setitem__(self, k, v)


def brief(v):
    try:
        r = repr(v)
    except Exception:
        r = '?'
    if ' at 0x' in r:
        r = ADDR.sub('0x', r)
    return r[:60]


def setup(ctx):
    from smartquery import SqParser
    from smartquery import functions
    ctx.P0 = SqParser()
    ctx.P1 = SqParser(parse_cache={})
    ctx.rec = [Recorder(ctx)]
    ctx.M1 = M1 = monitors.NodeMonitor()

    def on_enter(node, state):
        rec = ctx.rec[0]
        if rec.depth:
            rec.nested += 1
            return
        rec.enters += 1
        sid = id(state)
        if rec.first_state is None:
            rec.first_state = sid
        rec.states[sid] = rec.states.get(sid, 0) + 1
        rec.state_objs[sid] = state
        rec.stack.append((rec.enters, len(rec.log)))

    def on_exit(node, state, value):
        rec = ctx.rec[0]
        if rec.depth:
            return
        if rec.stack:
            rec.stack.pop()

    def on_raise(node, state, exc):
        rec = ctx.rec[0]
        if rec.depth or not rec.stack:
            return
        idx, nlog = rec.stack.pop()
        if type(exc).__name__ == 'OpsExecutionLimitExceededError' and rec.enters == idx and len(rec.log) == nlog:
            rec.aborted += 1
            if rec.first_abort is None:
                rec.first_abort = idx
    M1.on_enter, M1.on_exit, M1.on_raise = on_enter, on_exit, on_raise
    F = functions.FUNCTIONS
    BUILTIN_NAMES[:] = sorted(F)
    for n in MUTATORS:
        orig = F[n]

        def wrapper(*args, _orig=orig, _n=n):
            ctx.rec[0].event('mutator', _n, brief(args[1:]), len(args[0]) if args and hasattr(args[0], '__len__') else None)
            return _orig(*args)
        F[n] = wrapper


def host(ctx, r_seed):
    rec = ctx.rec

    def emit(*v):
        rec[0].event('emit', brief(v))
        return v[0] if v else None

    def try_(f, *a):
        rec[0].event('try_')
        try:
            return f(*a)
        except Exception as e:
            rec[0].event('try_caught', type(e).__name__)
            return 'caught'

    def hm(f, n):
        rec[0].event('hm', brief(n))
        return [f(D(i)) for i in range(int(n))]
    def reenter(k=0):
        # a host callback that evaluates another program on the SAME parser while the outer call is in flight (its own names, its own budget)
        r = rec[0]
        r.event('reenter')
        r.depth += 1
        try:
            return ctx.cur_parser.eval(['1 + 2', '[1, 2, 3] | map(v => v * 2) | sum', 'x = 5\nx * x', 'len("abc") + 1'][int(k) % 4], {}, None, 60)
        finally:
            r.depth -= 1
    class HostObj:
        """a host value whose comparison / truth / text methods call back into the program: the callbacks run inside whatever builtin compares, sorts,
        searches or prints the value, and are part of this call's budget like every other evaluation of a lambda body"""
        def __init__(self, f, i):
            self.f, self.i = f, i

        def __repr__(self):
            return 'HostObj(%d)' % self.i

        def __eq__(self, other):
            rec[0].event('obj_eq', self.i)
            self.f(D(self.i))
            return False

        def __lt__(self, other):
            rec[0].event('obj_lt', self.i)
            self.f(D(self.i))
            return self.i < getattr(other, 'i', 0)

        def __bool__(self):
            rec[0].event('obj_bool', self.i)
            self.f(D(self.i))
            return True

        def __str__(self):
            rec[0].event('obj_str', self.i)
            return 'o%s' % (self.f(D(self.i)),)

        __hash__ = None

    def objs(f, n):
        rec[0].event('objs', brief(n))
        return [HostObj(f, i) for i in range(int(n))]
    names = gen2.host_names(random.Random(r_seed))
    names.update({'emit': emit, 'try_': try_, 'hm': hm, 'reenter': reenter, 'objs': objs, 'a': D(1), 'b': D(2), 'x': D(3), 'hv': D(10), 'hs': 'host', 'hl': [D(1), D(2)]})
    return names


EXTRA = ['emit(%s)', 'emit(%s, 1)', 'try_(%s, 1)', 'try_(%s, "a", 2)', 'hm(%s, 3)', 'emit(hm(%s, 2))', 'try_(v => hm(%s, 2), 0)', 'map([1, 2, 3], %s)', 'sorted([3, 1, 2], %s)',
         'filter([1, 2, 3], %s)', 'emit(map([1, 2], v => emit(v)))', 'push(h_list, emit(4))', 'h_dict["z"] = emit(5)', 'try_(v => push(h_list, nope), 1)', 'sorted([3, 1, 2], v => emit(0 - v))',
         'reduce([1, 2, 3], (p, q) => emit(p + q))', 'try_(%s)', 'emit(1) and emit(0) and emit(2)', 'emit(0) or emit(3)', 'emit(1) if emit(0) else emit(2)', '[emit(1), emit(2)][emit(0)]',
         'reenter(1)', 'emit(reenter(0))', 'map([0, 1, 2], v => reenter(v))', 'reenter(2) + reenter(3)', 'try_(v => reenter(v), 1)',
         'index_of(objs(%s, 4), 99)', '99 in objs(%s, 3)', 'remove(objs(%s, 3), 99)', 'sorted(objs(%s, 3))', 'max(objs(%s, 3))', 'objs(%s, 2)[0] == 1', 'not objs(%s, 1)[0]',
         '"s" + objs(%s, 1)[0]', '{"k": 1}[objs(%s, 1)[0]]', 'emit(index_of(objs(v => emit(v) + v, 3), 5))', 'objs(%s, 2)[1] and emit(7)', 'try_(v => index_of(objs(%s, 3), v), 9)',
         'rec = n => 0 if n < 1 else emit(n) + rec(n - 1)\nrec(4)', 'loop = n => loop(n + 1)\ntry_(loop, 0)', 'loop2 = n => emit(n) + loop2(n + 1)\nloop2(0)']


BUILTIN_NAMES = []


def gen_case_program(r):
    kind = r.randrange(3)
    if kind == 0:
        lines, env = gen2.gen_program(r, max_lines=5, depth=3, fault_rate=0.1)
        fns = [n for n, t in env.vars.items() if isinstance(t, tuple) and t[0] == 'fn'] or ['(v => v)']
    else:
        from checks.c10 import gen_program
        lines = gen_program(r)
        fns = [l.split(' = ')[0] for l in lines if ' => ' in l] or ['(v => v)']
    if r.random() < 0.3:
        # every table entry gets a program lambda as an argument (whether it calls it or not is the builtin's business; the budget covers it either way)
        name = r.choice(BUILTIN_NAMES)
        lines.append(r.choice(['%s([3, 1, 2], v => emit(v) + v)', '%s([3, 1, 2], (p, q) => emit(p))', 'emit(%s([1, 2, 3, 4], v => v > 2))', '[1, 2, 3] | %s(v => emit(v))',
                               '%s("abc", v => emit(v))', '%s({"a": 1}, (k, v) => emit(k))', '%s([3, 1, 2], v => v == 2)']) % name)
    for _ in range(r.randint(1, 3)):
        t = r.choice(EXTRA)
        lines.insert(r.randint(0, len(lines)), t % r.choice(fns + ['(v => v + 1)', '(v => emit(v))']) if '%s' in t else t)
    return '\n'.join(lines)


def cases(ctx):
    rnd = ctx.rnd
    if ctx.shard == ctx.nshards - 1:
        yield ('repo-tests',)
    yield ('cgf', rnd.getrandbits(30), ctx.scale(6, 120))          # coverage-guided programs, one fuzzing process per worker
    if ctx.shard == 0:
        for src in ['1 + 2', 'emit(1)\nemit(2)\nemit(3)', 'x = 5\ny = x + 1\nemit(y)', 'map([1, 2, 3], v => emit(v))', 'sorted([3, 1, 2], v => 0 - v)',
                    'hm(v => emit(v), 3)', 'emit(1)\nreenter(1)\nmap([1, 2, 3, 4, 5, 6, 7, 8, 9, 10], v => emit(v))', 'try_(v => hm(w => emit(w), 5), 0)\nemit("after")', 'f = n => 0 if n < 1 else n + f(n - 1)\nf(5)', '']:
            yield ('prog', src, None, False)
        yield ('history', [('f = n => [n, n + 1, n + 2] | map(v => v * 2)', 100), ('f(1)', 10), ('f(1)', 10), ('f(1)', 10), ('f(2)', 50)])
    for _ in range(ctx.scale(400, 6000)):
        seed = rnd.getrandbits(48)
        yield ('gen', seed, rnd.random() < 0.3)
    for _ in range(ctx.scale(120, 3000)):
        yield ('genhist', rnd.getrandbits(48))


def one_run(ctx, P, src, names, ast_names, budget):
    """-> dict(outcome, log, enters, charged, foreign)"""
    from smartquery.exceptions import ParserError, OpsExecutionLimitExceededError
    rec = Recorder(ctx)
    ctx.rec[0] = rec
    names.rec = ctx.rec
    ctx.cur_parser = P
    random.seed(13)                 # a generated program may call rand / shuffle: the bounded runs draw the same numbers as the unbounded one
    try:
        v = P.eval(src, names, ast_names, budget) if budget is not None else P.eval(src, names, ast_names)
        out = ('value', brief(v))
    except OpsExecutionLimitExceededError as e:
        out = ('ops', '')
    except ParserError as e:
        out = ('perr', ADDR.sub('0x', str(e))[:80])
    except RecursionError:
        out = ('recursion', '')
    except Exception as e:
        out = ('other', type(e).__name__)
    st = rec.state_objs.get(rec.first_state)
    return {'outcome': out, 'log': rec.log, 'enters': rec.enters, 'started': rec.enters - rec.aborted, 'first_abort': rec.first_abort,
            'charged': st.ops_evaluated if st is not None else None,
            'foreign': rec.enters - rec.states.get(rec.first_state, 0), 'recorder': rec}


def make_names(ctx, seed):
    return NamesLog(host(ctx, seed), ctx.rec)


def stale_lambdas(ctx, names, current_windows_states):
    """lambdas sitting in names that were created by an earlier eval"""
    out = []
    for v in names.values():
        if callable(v) and id(v) in ctx.M1.lambdas:
            out.append(id(ctx.M1.lambdas[id(v)][1]))
    return out


def fmtN(N):
    """budgets may be too long to print (int -> str conversion limit)"""
    return N if N is None or N.bit_length() < 200 else '<integer of %d bits>' % N.bit_length()


def judge_pair(ctx, case, src, N, unb, run, what_prefix=''):
    """compare a bounded run with the unbounded run of the same program; -> (what, detail) or None.
    `started` = node entries that got past the budget check (an entry refused at once by the check starts nothing)."""
    T = unb['enters']
    o, uo = run['outcome'], unb['outcome']
    detail = {'src': src, 'N': fmtN(N), 'T': T, 'outcome': o, 'unbounded_outcome': uo, 'node_entries': run['enters'], 'started': run['started'], 'charged': run['charged']}
    if run['started'] > N - 1:
        return ('%d operations got past the budget check under a budget of %s (at most N-1 may)' % (run['started'], fmtN(N)), detail)
    if T < N:
        if run['first_abort'] is not None:
            return ('the budget check refused operation %d although the program needs only T=%d < N=%s' % (run['first_abort'], T, fmtN(N)), detail)
        if o != uo:
            return ('a run that needs T=%d operations behaves differently under the larger budget N=%s' % (T, fmtN(N)), detail)
        if run['log'] != unb['log']:
            detail['log'] = run['log'][-4:]
            return ('effects under budget N > T differ from the unbounded run', detail)
        if run['charged'] is not None and run['charged'] != run['enters']:
            return ('the implementation charged %s operations, %d node evaluations were observed' % (run['charged'], run['enters']), detail)
        return None
    # T >= N: the N-th node entry must be refused, before it has any effect
    swallowed = None
    for i, e in enumerate(run['log']):
        if e[1] == 'try_caught' and e[2] == 'OpsExecutionLimitExceededError':
            swallowed = i
            break
    if run['first_abort'] != N:
        return ('the program needs T=%d >= N=%d operations but the budget check first fired at operation %s' % (T, N, run['first_abort']), detail)
    if swallowed is None and o[0] != 'ops':
        return ('the program needs T=%d >= N=%d operations but the run ended with %s instead of the ops-limit error' % (T, N, o[0]), detail)
    log = run['log'] if swallowed is None else run['log'][:swallowed]
    late = [e for e in log if e[0] >= N]
    if late:
        detail['late_events'] = late[:3]
        return ('an effect was logged after the N-th operation had started', detail)
    if log != unb['log'][:len(log)]:
        detail['log'] = log[-4:]
        detail['unbounded_log_prefix'] = unb['log'][:len(log)][-4:]
        return ('the effects of the aborted run are not a prefix of those of the unbounded run', detail)
    return None


def run_repo_tests(case, ctx):
    """the repository's own tests as a workload: for every VM state they create, operations charged == node evaluations observed, and never more than the budget"""
    from lib import repotests
    rec = Recorder(ctx)
    ctx.rec[0] = rec
    repotests.run(ctx)
    n = 0
    for sid, st in rec.state_objs.items():
        n += 1
        seen = rec.states[sid]
        if st.ops_evaluated != seen:
            ctx.violation('the implementation charged %s operations, %d node evaluations were observed' % (st.ops_evaluated, seen), case, detail={'workload': 'repository test-suite'})
            break
        if st.ops_evaluated > st.max_ops_evaluated:
            ctx.violation('%d operations were started under a budget of %s' % (st.ops_evaluated, fmtN(st.max_ops_evaluated)), case, detail={'workload': 'repository test-suite'})
            break
    ctx.count('vm_states_of_the_repository_tests_checked', n)
    ctx.rec[0] = Recorder(ctx)


def case_deadline(case):
    return case[2] + 400 if case[0] == 'cgf' else CASE_DEADLINE


def run_cgf(case, ctx):
    """coverage-guided programs: an atheris/libFuzzer process runs THIS check's run_case on ('prog', text, None, False) cases (unbounded run, then every budget
    up to the need and beyond, effects compared) over the instrumented sandbox copy; programs on which an unlisted violation was recorded are judged again here"""
    from lib import cgdriver
    _, seed, seconds = case
    r = random.Random(seed)
    seeds = ['1 + 2', 'emit(1)\nemit(2)\nemit(3)', 'x = 5\ny = x + 1\nemit(y)', 'map([1, 2, 3], v => emit(v))', 'sorted([3, 1, 2], v => 0 - v)', 'hm(v => emit(v), 3)',
             'try_(v => hm(w => emit(w), 5), 0)\nemit("after")', 'f = n => 0 if n < 1 else n + f(n - 1)\nf(5)', 'emit(1) and emit(0) or emit(2)', 'push(h_list, emit(4))', 'reduce([1, 2, 3], (p, q) => emit(p + q))',
             'index_of(objs(v => emit(v), 3), 9)', 'emit(reenter(0))']
    for _ in range(6):
        seeds.append(gen_case_program(r))
    seeds += ['emit(rand(1, 5))', 'map(shuffle([1, 2, 3]), v => emit(v))', 'emit(1) if rand() < 0.5 else emit(2)']
    out = cgdriver.run(ctx, 'check:C01:prog', seed, seconds, seeds)
    if out is None:
        return
    st, fired, _slow = out
    for text in fired:
        ctx.count('programs_on_which_the_oracle_fired_in_the_fuzzing_process')
        before = len(ctx.violations)
        run_case(('prog', text, None, False), ctx)
        if len(ctx.violations) == before:
            ctx.violation('coverage-guided fuzzing: a violation was recorded in the fuzzing process but not when the program was judged again here', ('prog', text, None, False), detail={'src': text[:300]})


def run_case(case, ctx):
    kind = case[0]
    if kind == 'cgf':
        return run_cgf(case, ctx)
    if kind == 'repo-tests':
        return run_repo_tests(case, ctx)
    if kind in ('prog', 'gen'):
        if kind == 'prog':
            src, body, cached = case[1], case[2], case[3]
            seed = 1
        else:
            r = random.Random(case[1])
            src = gen_case_program(r)
            cached = case[2]
            body = None
            seed = case[1]
            if r.random() < 0.25:
                # a helper lambda compiled by the host and supplied through ast_names: its body is part of this call's budget like any other node
                body = r.choice(['p0 + 1', 'emit(p0)', '[p0, p0] | map(v => v * 2)', 't0 = p0 + 1\nt0 * 2', 'emit(p0) if p0 > 1 else p0'])
                src = src + '\n' + r.choice(['map([1, 2, 3, 4, 5, 6, 7, 8, 9, 10, 11, 12, 13], af)', 'af(1)\naf(2)\naf(3)', 'emit(af(5))', 'hm(af, 6)', 'sorted([3, 1, 2], af)'])
        P = ctx.P1 if cached else ctx.P0
        ctx.M1.lambdas.clear()
        ast = None
        if body is not None:
            from smartquery.ast_ops import LambdaOp, NameOp
            try:
                ast = {'af': LambdaOp(args=[NameOp('p0')], expr=P.parse(body))}
            except Exception:
                return
            ctx.count('programs_with_ast_names')
        unb = one_run(ctx, P, src, make_names(ctx, seed), ast, UNBOUNDED)
        if unb['outcome'][0] == 'recursion' or any(e[1] == 'try_caught' and e[2] == 'RecursionError' for e in unb['log']):
            ctx.count('programs_dropped(RecursionError)')
            return
        if unb['first_abort'] is not None:
            ctx.count('programs_dropped(need more than %d operations)' % UNBOUNDED)
            return
        T = unb['enters']
        ctx.count('programs')
        if unb['charged'] is not None and unb['charged'] != T and unb['foreign'] == 0:
            ctx.violation('unbounded run: the implementation charged %s operations, %d node evaluations were observed' % (unb['charged'], T), case, detail={'src': src})
            return
        budgets = list(range(1, min(T + 2, 60) + 1))
        r2 = random.Random(seed ^ 0x5bd1)
        if T + 2 > 60:
            budgets += sorted(set(r2.randint(61, T + 2) for _ in range(12)))
        budgets.append(None)
        # budgets far above anything the program needs, up to integers too long to print: the limit is a number to compare with, nothing else
        budgets += r2.sample(HUGE_BUDGETS, 2)
        prev = None
        for N in budgets:
            ctx.evaluations += 1
            run = one_run(ctx, P, src, make_names(ctx, seed), ast, N)
            n_eff = 100 if N is None else N
            ctx.count('budget_runs_compared')
            ctx.nontriv('%s|%s|%s' % (src, fmtN(N), cached))
            bad = judge_pair(ctx, case, src, n_eff, unb, run)
            if bad:
                finding = None
                ctx.violation(bad[0], ('prog', src, body, cached), finding=finding, detail=dict(bad[1], parser='cached' if cached else 'plain'))
                return
            if run['outcome'][0] == 'ops':
                ctx.count('aborted_runs')
            else:
                ctx.count('completed_runs')
        if ctx.counters['programs'] % 40 == 1:
            ctx.sample({'src': src, 'T': T, 'budgets_tried': len(budgets), 'unbounded_outcome': unb['outcome'], 'effects_logged': len(unb['log'])})
        return
    # ---- histories: several eval calls sharing one names mapping
    if kind == 'history':
        calls = case[1]
        seed = 7
    else:
        r = random.Random(case[1])
        seed = case[1]
        calls = []
        fn = r.choice(['f', 'g'])
        calls.append(('%s = n => %s' % (fn, r.choice(['[n, n + 1, n + 2] | map(v => v * 2)', 'emit(n) + 1', 'n + 1', '0 if n < 1 else n + %s(n - 1)' % fn, 'hm(v => v + n, 3)'])),
                      r.choice([100, 50, 10 ** 4])))
        for _ in range(r.randint(1, 5)):
            calls.append((r.choice(['%s(1)', '%s(3)', 'emit(%s(2))', 'map([1, 2], %s)', 'try_(%s, 2)', 'y = %s(1)']) % fn, r.choice([4, 8, 10, 20, 50, 100, None])))
    P = ctx.P0
    names = make_names(ctx, seed)
    ctx.M1.lambdas.clear()
    hist = []
    for src, N in calls:
        ctx.evaluations += 1
        stale = set(stale_lambdas(ctx, names, None))
        run = one_run(ctx, P, src, names, None, N)
        n_eff = 100 if N is None else N
        hist.append((src, N, run['outcome'][0], run['enters']))
        ctx.count('history_calls')
        # the same call on fresh state with the same visible names cannot be replayed (callables are opaque); judge the budget only
        what = None
        if run['started'] > n_eff - 1:
            what = '%d operations got past the budget check under a budget of %d' % (run['started'], n_eff)
        elif run['first_abort'] is not None and run['first_abort'] < n_eff:
            what = 'the ops-limit error was raised at operation %d under a budget of %d' % (run['first_abort'], n_eff)
        elif run['outcome'][0] == 'ops' and run['first_abort'] is None:
            what = 'the ops-limit error was raised although no node entry of this call was refused (%d started, budget %d)' % (run['started'], n_eff)
        if what:
            rec = run['recorder']
            foreign_states = set(s for s in rec.states if s != rec.first_state)
            finding = 'stale-lambda-state' if (run['foreign'] > 0 and foreign_states and foreign_states <= stale) else None
            ctx.violation(what, ('history', calls), finding=finding, detail={'history': hist, 'operations_charged_to_another_call\'s_state': run['foreign']})
            if finding is None:
                return
        if run['foreign']:
            ctx.count('history_calls_with_operations_charged_to_an_earlier_state')
    ctx.nontriv(repr(calls))


def conclusive(m):
    c = m['counters']
    for k, n in (('budget_runs_compared', 20000), ('aborted_runs', 5000), ('completed_runs', 500), ('history_calls', 300)):
        if c.get(k, 0) < n:
            return 'monitor counter %s = %d (< %d)' % (k, c.get(k, 0), n)
    return None
