"""C12 - assignment has value semantics: stored values are independent copies.

Monitors: M1 with operand frames on AssignOp / ShortOp exits, M3 wrappers on the two index-assignment
helpers.  Online identity invariants, checked immediately after every assignment (they do not depend on
a mutation actually following):
  I1  x = e, c[k] = e   : no mutable container reachable from the stored value is reachable from the value of e,
                          nor from any other root (every other binding in every live scope, every other slot of c)
  I2  x op= e, c[k] op= e: no mutable container reachable from the value of e is reachable from the stored value
Plus a behavioural probe: after the program, every host object that the program never passed to a mutator must be unchanged.
"""
import copy
import random
from decimal import Decimal

from lib import heap, monitors

ID = 'C12'
TECHNIQUE = "runtime monitor: object-identity disjointness invariants checked immediately after every assignment; host container kinds, coverage-guided programs (atheris), the repository's tests"
RULE = ('programs of 2-10 statements over host-supplied nested lists/dicts/tuple lists and program-built containers: the four assignment forms (name, index, compound name, '
        'compound index, incl. index == len(list) and negative indices) with right-hand sides that are names, sub-paths, literals embedding names, results of '
        'items/enumerate/values/keys/sorted/map/filter/get/reversed (tuples and fresh lists that still contain the original inner objects), host callbacks returning host objects, '
        'chained up to 4 deep, inside lambda bodies (ast_names) and at top level, interleaved with mutations (push/pop/insert/remove/index write/del) through either side. '
        'Non-trivial = an assignment of a value containing at least one mutable container was checked by I1/I2; distinct = distinct program text.')
RULE += ' Right-hand sides also apply - * / ** and unary minus to containers, and host values contain members that cannot be deep-copied (a lock, a generator) next to nested lists.'
RULE += ' Host values also include an OrderedDict, a defaultdict, a list subclass and a list nested 700 levels deep (deeper than copy.deepcopy can recurse).'
RULE += ' Host containers include hashable list / dict subclasses (identity hash).'
RULE += " One more workload: the repository's own test-suite, run in a worker process against the sandbox copy with this check's monitors installed (the tests' assertions are not the oracle, the monitors are)."
RULE += " Coverage-guided programs: one atheris/libFuzzer process per worker (6 s quick, 120 s thorough) runs this check's own judgement on generated program texts over the instrumented sandbox copy; programs on which an unlisted violation was recorded there are judged again by the worker."
ASSUMPTIONS = ['internal aliasing inside one stored value is legitimate; the invariant is about objects shared with the outside',
               'for compound forms the independent copy is that of the operand (the target list itself is extended in place by design)',
               'push/insert are not assignments (they store the same object) and are not judged here']
FINDINGS = {}
CASE_DEADLINE = 20
D = Decimal


class HostList(list):
    """a host container that is a list without being exactly `list`"""


class HashList(list):
    """a mutable host container that is hashable (identity hash): hashable does not mean immutable"""
    __hash__ = object.__hash__


class HashDict(dict):
    __hash__ = object.__hash__


def hostnames():
    inner = [D(1), D(2)]
    hl = [inner, [D(3)], {'k': [D(4)]}]
    hd = {'k': [D(5), [D(6)]], 'j': {'z': [D(7)]}, 'n': D(8)}
    ht = [(D(1), [D(9)]), (D(2), {'q': [D(0)]})]
    import threading
    hw = {'lock': threading.Lock(), 'rows': [[D(1)], [D(2)]], 'gen': (i for i in range(3))}      # a host value with members deepcopy cannot handle
    import collections
    deep = [D(1)]
    for _ in range(700):
        deep = [deep]            # nested deeper than copy.deepcopy can recurse: binding it may fail, it may not silently become a shared reference
    more = {'hod': collections.OrderedDict([('k', [D(1), [D(2)]]), ('j', {'z': [D(3)]})]), 'hdd': collections.defaultdict(list, {'k': [D(4), [D(5)]]}),
            'hsl': HostList([[D(6)], [D(7), [D(8)]]]), 'hdeep': deep, 'hhl': HashList([[D(1)], D(2)]), 'hhd': HashDict({'k': [D(3)], 'n': D(4)})}
    return {**more, 'hl': hl, 'hd': hd, 'ht': ht, 'hw': hw, 'hwl': [hl[0], threading.Lock()], 'el': [], 'ed': {}, 'hm': lambda f, n: [f(i) for i in range(int(n))], 'hid': lambda v: v, 'num': D(3), 's': 'txt'}


LISTS = ['hl', 'hl[0]', 'hd["k"]', 'a', 'b', 'c', 'el', 'hsl', 'hod["k"]', 'hdd["k"]', 'hhl']
DICTS = ['hd', 'hd["j"]', 'hl[2]', 'da', 'ed', 'hod', 'hdd', 'hhd']
RHS = ['hl', 'hd', 'ht', 'hl[0]', 'hd["k"]', 'hd["j"]', 'hl[2]', 'a', 'b', 'c', 'da', '[hl, hl]', '[a, hl[0]]', '{"q": hl}', '{"q": hd["k"], "r": a}', 'items(hd)', 'enumerate(hl)',
       'values(hd)', 'keys(hd)', 'sorted(hl, v => str(v))', 'map(hl, v => v)', 'filter(hl, v => True)', 'get(hd, "k")', 'get(hd, "zz", hl)', 'reversed(hl)', 'hl + [hl[0]]',
       'hl[0:2]', 'hl[::-1]', 'hid(hl)', 'hm(v => hl[0], 2)', 'hid(hd)["k"]', 'ht[0]', 'ht[1][1]', 'max(hl[0], hl[1])', 'hl[0] if True else a', 'a and hl', 'el or hl', 'num', 's',
       'hl - [hl[1]]', 'hl - el', 'hl * 1', 'a - b', '(hl + hl) - [hl[0]]', 'hl / 1', 'hl ** 1', '-hl', 'hl - hl[1:]', 'hl[0] - [1]',
       'hw', 'hw["rows"]', 'hwl', '[hw, hl]', 'hid(hw)',
       'hhl', 'hhd', '[hhl, hhd]', 'hhl[0]', 'hhd["k"]', 'hid(hhl)', '{"q": hhl}',
       'hod', 'hdd', 'hsl', 'hod["k"]', 'hdd["k"]', 'hsl[0]', '[hod, hsl]', '{"q": hdd}', 'hid(hsl)', 'hdeep', 'hdeep[0]', '[hdeep[0][0]]', 'values(hod)', 'items(hdd)',
       '[[1], [2]]', 'list(hl, hd)', 'dict(hd)', 'hd | items | sorted', 'enumerate(ht)', 'rand(hl)', 'shuffle(hl)', 'reduce(hl, (x, y) => x)', 'x2']
LRHS = ['hhl', '[hhd]', 'hsl', 'hod["k"]', 'hdeep', '[hdd]', 'hwl', 'hw["rows"]', 'hl - [hl[1]]', 'hl', 'hl[0]', 'hd["k"]', 'a', 'b', '[hl[0]]', '[hl, hd]', 'values(hd)', 'items(hd)', 'enumerate(hl)', 'map(hl, v => v)', 'hid(hl)', 'ht', '[[1]]', 'sorted(hl, v => str(v))', 'reversed(hl)']
KEY_L = ['0', '1', '-1', 'len(%s)', '2']
KEY_D = ['"k"', '"new"', '"j"', '1', 'None']


def gen_program(r):
    lines = []
    n = r.randint(2, 10)
    have = set()
    for _ in range(n):
        x = r.random()
        if x < 0.30 or not have:
            v = r.choice(['a', 'b', 'c', 'da', 'x2'])
            lines.append('%s = %s' % (v, r.choice(RHS)))
            have.add(v)
        elif x < 0.50:
            if r.random() < 0.55:
                c = r.choice(LISTS)
                k = r.choice(KEY_L)
                k = k % c if '%s' in k else k
            else:
                c = r.choice(DICTS)
                k = r.choice(KEY_D)
            lines.append('%s[%s] = %s' % (c, k, r.choice(RHS)))
        elif x < 0.62:
            lines.append('%s += %s' % (r.choice(['a', 'b', 'c', 'hl', 'el']), r.choice(LRHS)))
        elif x < 0.74:
            if r.random() < 0.5:
                lines.append('%s[%s] += %s' % (r.choice(['hl', 'a', 'b']), r.choice(['0', '1', '-1']), r.choice(LRHS)))
            else:
                lines.append('%s[%s] += %s' % (r.choice(['hd', 'da']), r.choice(['"k"', '"j"']), r.choice(LRHS)))
        else:
            p = r.choice(LISTS + ['a[0]', 'b[0]', 'c[0]', 'da["k"]', 'hl[0]', 'hd["k"][1]'])
            lines.append(r.choice(['push(%s, 9)', '%s[0] = 7', 'pop(%s)', 'insert(%s, 0, 8)', 'remove(%s, 1)', 'del %s[0]', 'push(%s, [9])']) % p)
    return lines


def added_ids(stored, pre_len):
    """ids of the mutable objects reachable from the elements added to `stored` (not of a temporary slice list: a fresh list can be given the address of
    the operand list that has just been freed, and would then look shared)"""
    seen = set()
    for i in range(pre_len, len(stored)):
        heap.mutable_ids(list.__getitem__(stored, i), seen)
    return seen


class Watch:
    def __init__(self, ctx):
        self.ctx = ctx
        self.stack = []
        self.state = None
        self.case = None
        self.judged = 0
        self.src = ''
        self.keep = []

    def enter(self, node, state):
        self.state = state
        pre = None
        if type(node).__name__ == 'ShortOp':
            try:
                cur = state.names[node.name]
                pre = len(cur) if isinstance(cur, list) else None
            except Exception:
                pre = None
        self.stack.append((node, [], pre))

    def exit(self, node, state, value):
        fr = self.stack.pop()
        if self.stack:
            parent = type(self.stack[-1][0]).__name__
            if parent in ('AssignOp', 'ShortOp'):
                # snapshot of what the operand reaches NOW, before the assignment happens
                self.stack[-1][1].append(heap.mutable_ids(value))
                self.keep.append(value)          # keeps the operand's objects alive until the case ends: their addresses cannot be given to other objects
        k = type(node).__name__
        if k == 'AssignOp' and fr[1]:
            self.after_name_assign(node.name, fr[1][-1], state, compound=False)
        elif k == 'ShortOp' and fr[1]:
            self.after_name_assign(node.name, fr[1][-1], state, compound=True, pre_len=fr[2])

    def raised(self, node, state, exc):
        if self.stack:
            self.stack.pop()

    def roots(self, state, skip_scope=None, skip_key=None):
        """ids of mutable containers reachable from every binding of every live scope except one slot"""
        seen = set()
        scopes = state.names.scopes
        for d in range(1, len(scopes)):            # scope 0 = the builtin table
            for k, v in list(scopes[d].items()):
                if scopes[d] is skip_scope and k == skip_key:
                    continue
                heap.mutable_ids(v, seen)
        return seen

    def after_name_assign(self, name, rhs, state, compound, pre_len=None):
        ctx = self.ctx
        top = state.names.scopes[-1]
        if name not in top:
            return
        stored = top[name]
        rhs_ids = rhs          # ids reachable from the operand's value, taken when the operand was evaluated
        if compound:
            # the target list is extended in place by design: the independent copy is that of the operand,
            # so the elements ADDED by the operation must not share anything with the operand's value
            if not rhs_ids or pre_len is None or not isinstance(stored, list) or len(stored) <= pre_len:
                return
            self.judged += 1
            ctx.count('compound_name_assignments_checked')
            shared = rhs_ids & added_ids(stored, pre_len)
            if shared:
                ctx.violation('x op= e: the stored value shares a mutable object with the operand', self.case,
                              detail={'src': self.src, 'name': name, 'shared_objects': len(shared)})
            return
        st_ids = heap.mutable_ids(stored)
        if not st_ids:
            return
        self.judged += 1
        ctx.count('name_assignments_checked')
        shared = st_ids & rhs_ids
        if shared:
            ctx.violation('x = e: the stored value shares a mutable object with the value of e', self.case,
                          detail={'src': self.src, 'name': name, 'shared_objects': len(shared)})
            return
        shared = st_ids & self.roots(state, top, name)
        if shared:
            ctx.violation('x = e: the stored value shares a mutable object with another variable / host object', self.case,
                          detail={'src': self.src, 'name': name, 'shared_objects': len(shared)})

    def setitem(self, orig, compound):
        W = self

        def wrapper(container, key, *rest):
            value = rest[-1]
            rhs_ids = heap.mutable_ids(value)
            W.keep.append(value)
            pre_len = None
            if compound:
                try:
                    from smartquery.functions import _key_cast
                    cur = container[_key_cast(container, key)]
                    pre_len = len(cur) if isinstance(cur, list) else None
                except Exception:
                    pre_len = None
            r = orig(container, key, *rest)
            try:
                from smartquery.functions import _key_cast
                stored = container[_key_cast(container, key)]
            except Exception:
                return r
            ctx = W.ctx
            if compound:
                if rhs_ids and pre_len is not None and isinstance(stored, list) and len(stored) > pre_len:
                    W.judged += 1
                    ctx.count('compound_index_assignments_checked')
                    shared = rhs_ids & added_ids(stored, pre_len)
                    if shared:
                        ctx.violation('c[k] op= e: the stored value shares a mutable object with the operand', W.case,
                                      detail={'src': W.src, 'key': repr(key)[:40], 'shared_objects': len(shared)})
                return r
            st_ids = heap.mutable_ids(stored)
            if not st_ids:
                return r
            W.judged += 1
            ctx.count('index_assignments_checked')
            shared = st_ids & rhs_ids
            if shared:
                ctx.violation('c[k] = e: the stored value shares a mutable object with the value of e', W.case,
                              detail={'src': W.src, 'key': repr(key)[:40], 'shared_objects': len(shared)})
                return r
            # everything else: all roots, walking c but not through the slot just written
            seen = set()
            if isinstance(container, dict):
                for k2, v2 in container.items():
                    if v2 is not stored:
                        heap.mutable_ids(v2, seen)
            else:
                for v2 in container:
                    if v2 is not stored:
                        heap.mutable_ids(v2, seen)
            if W.state is not None:
                scopes = W.state.names.scopes
                for d in range(1, len(scopes)):
                    for k2, v2 in list(scopes[d].items()):
                        walk_except(v2, container, seen)
            shared = st_ids & seen
            if shared:
                ctx.violation('c[k] = e: the stored value shares a mutable object with another variable / host object', W.case,
                              detail={'src': W.src, 'key': repr(key)[:40], 'shared_objects': len(shared)})
            return r
        return wrapper


def walk_except(v, stop, seen, visiting=None):
    """mutable_ids, but do not descend into the container `stop` (its other slots were walked separately)"""
    heap.mutable_ids(v, seen, stop=stop)


def setup(ctx):
    from smartquery import SqParser
    from smartquery import functions
    ctx.P = SqParser()
    ctx.W = W = Watch(ctx)
    ctx.M1 = M1 = monitors.NodeMonitor()
    M1.on_enter, M1.on_exit, M1.on_raise = W.enter, W.exit, W.raised
    F = functions.FUNCTIONS
    F['__setitem__'] = W.setitem(F['__setitem__'], False)
    F['__setitem_with_op__'] = W.setitem(F['__setitem_with_op__'], True)


def cases(ctx):
    rnd = ctx.rnd
    if ctx.shard == ctx.nshards - 1:
        yield ('repo-tests', 0)
    yield ('cgf', rnd.getrandbits(30), ctx.scale(6, 120))          # coverage-guided programs, one fuzzing process per worker
    if ctx.shard == 0:
        for src in ['a = hl\npush(hl[0], 9)\na', 'x = hl\ny = hl\npush(x, 1)\ny', 'c = []\nc[0] = hl[0]', 'c = [1]\nc[len(c)] = hl[0]', 'p = items(hd)\np[0][1]',
                    'c = {}\nc["e"] = enumerate(hl)', 'acc = []\nacc += items(hd)', 'hl[1] += hl[0]', 'hd["k"] += [hl]', 'x = hl\ny = hl[0]\nz = [x, y]',
                    'a = [[1], [2]]\nd2 = {}\nd2["k"] = a\npush(a[0], 9)\nd2']:
            yield ('src', src, None)
    for _ in range(ctx.scale(5000, 80000)):
        yield ('gen', rnd.getrandbits(48))


def case_deadline(case):
    return case[2] + 400 if case[0] == 'cgf' else CASE_DEADLINE


def run_cgf(case, ctx):
    """coverage-guided programs: an atheris/libFuzzer process runs THIS check's run_case on ('src', text) cases over the instrumented sandbox copy (the ownership
    monitors judge every assignment form the program executes); programs on which a violation was recorded there are judged again here"""
    from lib import cgdriver
    _, seed, seconds = case
    r = random.Random(seed)
    seeds = ['a = hl\npush(hl[0], 9)\na', 'x = hl\ny = hl\npush(x, 1)\ny', 'c = []\nc[0] = hl[0]', 'p = items(hd)\np[0][1]', 'acc = []\nacc += items(hd)', 'hl[1] += hl[0]', 'hd["k"] += [hl]',
             'b = [a, hl[0]]\nda = {"q": hd["k"]}\nda["q"][0] = 7', 'c = sorted(hl, v => str(v))\nc[0] += [1]', 'x2 = hid(hd)["k"]\ndel x2[0]']
    for _ in range(8):
        seeds.append('\n'.join(gen_program(r)))
    out = cgdriver.run(ctx, 'check:C12:src', seed, seconds, seeds)
    if out is None:
        return
    st, fired, _slow = out
    for text in fired:
        ctx.count('programs_on_which_the_oracle_fired_in_the_fuzzing_process')
        before = len(ctx.violations)
        run_case(('src', text), ctx)
        if len(ctx.violations) == before:
            ctx.violation('coverage-guided fuzzing: a violation was recorded in the fuzzing process but not when the program was judged again here', ('src', text), detail={'src': text[:300]})


def run_case(case, ctx):
    if case[0] == 'cgf':
        return run_cgf(case, ctx)
    W = ctx.W
    ctx.M1.lambdas.clear()
    if case[0] == 'repo-tests':
        # the repository's own tests as a workload for the ownership monitors (every assignment form they execute is judged)
        from lib import repotests
        W.case, W.stack, W.state, W.src = case, [], None, '(repository tests)'
        j0 = W.judged
        repotests.run(ctx)
        ctx.count('assignments_judged_during_the_repository_tests', W.judged - j0)
        W.stack = []
        return
    if case[0] == 'src':
        lines = case[1].split('\n')
        in_lambda = False
    else:
        r = random.Random(case[1])
        lines = gen_program(r)
        in_lambda = r.random() < 0.25
    names = hostnames()
    W.case, W.stack, W.state, W.keep = case, [], None, []
    j0 = W.judged
    src = '\n'.join(lines)
    ast_names = None
    if in_lambda:
        from smartquery.ast_ops import LambdaOp, NameOp
        try:
            ast_names = {'body': LambdaOp(args=[NameOp('p0')], expr=ctx.P.parse(src))}
        except Exception:
            return
        W.src = 'ast_names body:\n' + src
        run = 'body(hl)'
    else:
        W.src = src
        run = src
    try:
        ctx.P.eval(run, names, ast_names, 10 ** 5)
        ctx.count('programs_completed')
    except Exception as e:
        ctx.cov('exception_classes', type(e).__name__)
    ctx.count('programs_run')
    if W.judged > j0:
        ctx.nontriv(W.src)
    if ctx.counters['programs_run'] % 500 == 1:
        ctx.sample({'src': W.src, 'assignments_checked': W.judged - j0})


def after_timeout(ctx):
    ctx.W.stack = []


def conclusive(m):
    c = m['counters']
    for k, n in (('name_assignments_checked', 3000), ('index_assignments_checked', 1000), ('compound_name_assignments_checked', 500), ('compound_index_assignments_checked', 300)):
        if c.get(k, 0) < n:
            return 'monitor counter %s = %d (< %d)' % (k, c.get(k, 0), n)
    return None
