"""C20 - syntax-error messages name the offending token and its physical line.

Monitor: M7 (token monitor) records every token the real lexer hands to the real parser.  LALR(1)
raises with its look-ahead in hand, so the last token pulled is the offending token - observed
independently of what the error routine chooses to print.  Oracle: the message contains that token's
text and 1 + (number of '\\n' before it); end of input must be reported as such.
"""
import re

from lib import gram, monitors

ID = 'C20'
TECHNIQUE = 'trace monitor: last token pulled by the LALR parser (M7) vs token text and physical line in the message; erroneous texts also from a coverage-guided corpus (atheris)'
RULE = ('valid multi-line programs (random derivations of the grammar, 1-6 statements, separators drawn from ; \\n \\r\\n, '
        'line breaks / CRLF / comments inside brackets) made invalid by (a) inserting one stray token of every kind at every '
        'token position and (b) truncating at every token boundary; plus directed cases. A case is non-trivial when the real '
        'parser raised from the parser (not the lexer) and the message was checked against the token M7 saw last; distinct = '
        'distinct source text.')
RULE += ' Strings and comments before the error contain CR/VT/FF/FS-RS/NEL/U+2028/U+2029; one case in four goes through eval, one in four is resubmitted on a caching parser (whose cache strips blank space from its keys) below two more blank lines (expected line + 2), one in seven is preceded by an arbitrary earlier call.'
RULE += ' Erroneous texts also come from the corpus grown by a coverage-guided fuzzing run per worker (atheris; 5 s quick, 100 s thorough); failures of the reserved-word action ("for is reserved keyword") are not syntax errors and are not judged.'
ASSUMPTIONS = ['the offending token is the last token the LALR(1) parser pulled from the lexer (M7)',
               'physical line = 1 + number of "\\n" characters before the token\'s first character',
               '"names the token" = the message contains the raw source slice of the token or str() of its normalised value',
               'lexical errors and reserved-word errors are outside this property (C16)']
FINDINGS = {}
CASE_DEADLINE = 10
STRAYS = ['NAME', 'NUMBER', 'STRING', 'EQ', 'NE', 'GT', 'LTE', 'PLUS', 'MINUS', 'TIMES', 'POWER', 'DIVIDE', 'LPAREN',
          'RPAREN', 'LBRACKET', 'RBRACKET', 'COMMA', 'DOT', 'PIPE', 'ASSIGN', 'SHORT_OP', 'LAMBDA', 'COLON', 'LBRACE',
          'RBRACE', 'NEWLINE', 'AND', 'OR', 'IN', 'NOT', 'IF', 'ELSE', 'TRUE', 'NONE', 'DEL']


EXOTIC_STRINGS = ['"a\x0cb"', '"\u2028"', '"x\x85y"', '"cr\rlf"', "'\x0b\x1c\x1d\x1e'", '"\u2029 z"', 'r"\x0c"']
POOLS = {'STRING': gram.STRINGS + EXOTIC_STRINGS + EXOTIC_STRINGS}


def setup(ctx):
    from smartquery import SqParser
    ctx.P = SqParser()
    from smartquery import functions as _functions
    ctx.count('table_entries_unknown_to_the_pinned_tree_added_to_the_identifier_pool', len(gram.use_table_names(gram.table_names())))
    ctx.M7 = monitors.TokenMonitor(ctx.P)
    # a caching parser: the same erroneous text is resubmitted with other leading blank lines; its cache normalises keys (strips surrounding
    # blank space), so the resubmitted text is the SAME key for the host's cache - and still a different text for the line numbers in the message
    ctx.PC = SqParser(parse_cache=gram.StripKeyCache())
    ctx.M7C = monitors.TokenMonitor(ctx.PC)


DIRECTED = [
    '1 +\n2 )',            # ) on line 2
    'a = 1;b = 2;c = )',   # ; is not a line
    'x = [1,\n2,\n3]\ny = )',   # line breaks inside brackets are lines
    'x = {"a": 1,\r\n "b": 2}\r\nf(1 2)',
    '1 +\n2',              # offending token is the NEWLINE itself (line 1)
    'a = 1\n\n\n  ) ',
    '1 +', 'f(', 'x =', 'del a', 'a.b', '[1, 2', '{"a": ', '(x, y) =>', 'a if b else',
    'x = 1;;;y = 2 3',
    '# only\n# comments\n1 2', 'x = "a\x0cb\u2028c"\ny = )', '# c \x0b \x85 \u2029\n1 2', 's = "cr\rlf" 5',
    'f(1,\n  # comment ) \n 2 3)',
]


def cases(ctx):
    rnd = ctx.rnd
    if ctx.shard == 0:
        for t in DIRECTED:
            yield ('text', t)
    yield ('cgf', rnd.getrandbits(30), ctx.scale(5, 100))          # erroneous texts from a coverage-guided corpus, one fuzzing process per worker
    nprog = ctx.scale(600, 12000)
    for _ in range(nprog):
        # base: 1-6 statements
        types = []
        for k in range(rnd.randint(1, 6)):
            if k:
                types.append('NEWLINE')
            if rnd.random() < 0.15:
                continue  # blank statement
            types += gram.gen('statement', rnd, rnd.randint(1, 5))
        if len(types) > 60 or not types:
            continue
        yield ('prog', tuple(types), rnd.getrandbits(30), rnd.getrandbits(30))


def expand(case, ctx):
    """one base program -> the base, a stray token of several kinds at every position, every truncation"""
    import random
    _, types, seed, sub = case
    r = random.Random(sub)
    n = len(types)
    every = 1 if n <= 25 else 2
    for i in range(0, n + 1, every):
        for s in r.sample(STRAYS, 3 if ctx.quick else 6):
            yield ('ins', types[:i] + (s,) + types[i:], seed, i)
    for k in range(1, n):
        yield ('trunc', types[:k], seed)


def message_ok(msg, raw, val, line):
    texts = [raw]
    if str(val) != raw:
        texts.append(str(val))
    for t in texts:
        k = msg.find(t)
        if k >= 0:
            rest = msg[:k] + ' ' + msg[k + len(t):]
            if re.search(r'(?<!\d)%d(?!\d)' % line, rest):
                return True
    return False


def parses(ctx, types, seed):
    _, text, _ = gram.render_layout(types, gram.Cyc(seed), comments=0.3, pools=POOLS)
    try:
        ctx.P.parse(text)
        return True
    except Exception:
        return False


def case_deadline(case):
    return case[2] + 400 if case[0] == 'cgf' else CASE_DEADLINE


def run_cgf(case, ctx):
    """erroneous texts from the corpus grown by a coverage-guided fuzzing run (texts that each reached lexer/parser code no earlier one had): every one
    goes through this check's oracle (offending token = the last token the parser pulled, line = its physical line in the text)"""
    from lib import cgdriver
    _, seed, seconds = case
    seeds = ['x = [1, 2]\nx | map(v => v * 2) )', 'f(1, {"a": b.c(d),}) if not x else y[1:2] 3', 'd["k"] += 1; del l[0] 7', 'a = 1\nb = [2,\n3]\nc d', '1 +', 'x = )', 'for x', 'a b', 'f(1,\n 2\n', 'x = 1;y = 2;z = = 3']
    out = cgdriver.run(ctx, 'c16', seed, seconds, seeds)
    if out is None:
        return
    n0 = ctx.counters['mid_text_errors'] + ctx.counters['end_of_input_errors']
    for text in cgdriver.corpus_texts(ctx, limit=ctx.scale(250, 4000)):
        ctx.evaluations += 1
        run_one(('text', text), ctx, True)
    ctx.count('syntax_errors_judged_on_texts_of_a_coverage_guided_corpus', ctx.counters['mid_text_errors'] + ctx.counters['end_of_input_errors'] - n0)


def run_case(case, ctx):
    kind = case[0]
    if kind == 'cgf':
        return run_cgf(case, ctx)
    if kind == 'prog':
        if not parses(ctx, case[1], case[2]):
            ctx.count('invalid_bases_dropped(nonassoc chains etc.)')
            return
        ctx.count('valid_bases')
        for sub in expand(case, ctx):
            ctx.evaluations += 1
            run_one(sub, ctx, True)
        return
    base_ok = True
    if kind == 'ins':
        base_ok = parses(ctx, case[1][:case[3]] + case[1][case[3] + 1:], case[2])
    run_one(case, ctx, base_ok)


def run_one(case, ctx, base_ok):
    from smartquery.exceptions import ParserError
    kind = case[0]
    if kind == 'text':
        text = case[1]
    else:
        _, text, _ = gram.render_layout(case[1], gram.Cyc(case[2]), comments=0.3, pools=POOLS)
    variant = hash(text) % 4
    if hash(text) % 7 == 3:
        # whatever the long-lived parser served before (failed parses, list_names generators abandoned or still suspended) must not move the line numbers
        gram.earlier_call(ctx.P, gram.Cyc(hash(text) & 0xffff))
        ctx.count('errors_preceded_by_an_arbitrary_earlier_call')
    if variant == 1:
        # resubmission on a caching parser: first the text itself, then the same text below two more blank lines
        ctx.count('resubmissions_on_a_caching_parser')
        ctx.M7C.begin()
        first_exc = None
        try:
            ctx.PC.parse(text)
        except Exception as e:
            first_exc = e
        last0 = ctx.M7C.last()
        if first_exc is not None and ctx.M7C.lex_error is None and last0 not in ('nothing-pulled', None) and 'reserved keyword' not in str(first_exc):
            # the same erroneous program two blank lines further down: same token, line + 2 - whether or not the parser lexes it again
            typ0, val0, start0, end0, _ = last0
            line0 = 1 + text.count('\n', 0, start0)
            try:
                ctx.PC.parse('\n\r\n' + text)
                msg2 = None
            except Exception as e:
                msg2 = str(e)
            ctx.count('resubmitted_errors_checked')
            if msg2 is None or not message_ok(msg2, text[start0:end0], val0, line0 + 2):
                ctx.violation('syntax-error message of a resubmitted program (two more leading blank lines, caching parser): wrong line or token', case,
                              detail={'text': text, 'first_message': str(first_exc), 'second_message': msg2, 'expected_line': line0 + 2})
                return
        text = '\n\r\n' + text
        P, M7 = ctx.PC, ctx.M7C
    else:
        P, M7 = ctx.P, ctx.M7
    M7.begin()
    try:
        if variant == 2:
            try:
                P.parse(text.rstrip())
            except Exception:
                pass
            else:
                ctx.count('accepted')
                return                      # syntactically valid: whatever eval raises is not a syntax error
            M7.begin()
            ctx.count('errors_through_eval')
            P.eval(text, {}, None, 10)
        else:
            P.parse(text)
    except Exception as e:
        exc = e
    else:
        ctx.count('accepted')
        return
    if M7.lex_error is not None:
        ctx.count('lexical_errors_skipped')
        return
    last = M7.last()
    if last == 'nothing-pulled':
        ctx.count('raised_before_any_token')
        return
    msg = str(exc)
    if isinstance(exc, ParserError) and 'reserved keyword' in msg:
        # not a syntax error: the grammar accepts the reserved word as an expression and its action refuses it (C16's category "use of a reserved word")
        ctx.count('reserved_word_errors(not syntax errors, not judged)')
        return
    ctx.nontriv(text)
    if last is None:
        ctx.count('end_of_input_errors')
        ctx.cov('error_token_types', '$end')
        low = msg.lower()
        if not isinstance(exc, ParserError) or not ('end of input' in low or 'eof' in low or 'end of file' in low):
            ctx.violation('error at the very end of the text is not reported as unexpected end of input', case,
                          detail={'text': text, 'raised': '%s: %s' % (type(exc).__name__, msg[:200])})
        return
    typ, val, start, end, _lineno = last
    raw = text[start:end]
    line = 1 + text.count('\n', 0, start)
    ctx.count('mid_text_errors')
    ctx.cov('error_token_types', typ)
    ctx.cov('lines_of_error', min(line, 12))
    if text.count(';', 0, start):
        ctx.count('errors_after_semicolons')
    if line > 1 + sum(1 for t in M7.log[:-1] if t and t[0] == 'NEWLINE' and t[1] != ';'):
        ctx.count('errors_after_bracket_internal_line_breaks')
    if typ == 'NEWLINE':
        ctx.count('offending_token_is_a_newline')
    if not isinstance(exc, ParserError):
        ctx.violation('syntax error raised as %s' % type(exc).__name__, case, detail={'text': text, 'msg': msg[:200]})
        return
    if not message_ok(msg, raw, val, line):
        why = 'token text missing' if (raw not in msg and str(val) not in msg) else 'wrong line number'
        ctx.violation('syntax-error message: ' + why, case,
                      detail={'text': text, 'message': msg, 'offending_token': [typ, raw], 'physical_line': line})
    if kind == 'ins' and base_ok and len(M7.log) - 1 < case[3]:
        ctx.violation('error reported before the inserted token (viable prefix rejected)', case,
                      detail={'text': text, 'message': msg, 'token_index': len(M7.log) - 1, 'inserted_at': case[3]})
    if ctx.counters['mid_text_errors'] % 4000 == 1:
        ctx.sample({'text': text, 'message': msg, 'offending_token': [typ, raw], 'physical_line': line})


def conclusive(m):
    c = m['counters']
    for k, n in (('mid_text_errors', 2000), ('end_of_input_errors', 500), ('errors_after_semicolons', 200),
                 ('errors_after_bracket_internal_line_breaks', 200), ('offending_token_is_a_newline', 50)):
        if c.get(k, 0) < n:
            return 'monitor counter %s = %d (< %d)' % (k, c.get(k, 0), n)
    if len(m['cover'].get('error_token_types', ())) < 30:
        return 'too few kinds of offending token'
    return None
