"""C06 - the parser accepts exactly the grammar and groups by the operator table.

Monitor: every token string is rendered with single blanks (token boundaries are ground truth), handed
to the real SqParser.parse, and the outcome (reject | neutral tree) is compared online with the
reference parser R1 (lib/refparser.py).  Workload: exhaustive strings over the token alphabet up to a
length bound + random derivations of the published grammar + one-token mutants of those.
"""
import itertools
import os
import random

from lib import gram, refparser, treeconv

ID = 'C06'
TECHNIQUE = 'online reference-model monitor: real parser vs reference parser R1 on exhaustive token strings (len <= 4/5) and grammar-derived sentences + mutants; coverage-guided differential fuzzing of texts (atheris) against reference lexer + R1'
RULE = ('token strings: (a) every string over the %d-token alphabet up to length 4 (quick) / plus length 5 over the '
        '%d class representatives (thorough), enumerated, hence distinct; (b) random derivations of the published '
        'grammar (depth 2-7, <= 70 tokens) and one-token insert/delete/replace mutants. A case is non-trivial when at '
        'least one of implementation and reference accepts it (a tree was compared); distinct = distinct rendered text.'
        % (len(gram.ALPHA), len(gram.ALPHA_SMALL)))
RULE += ' One grammar-derived case in eight is preceded by an arbitrary earlier call on the long-lived parser (failed parses, abandoned/suspended list_names, failing evals, names=None evals); one in five goes through a caching parser together with two sibling texts that differ only inside their string literals (with # in them).'
RULE += ' String literals include ones spelled like keyword constants and numbers ("True", \'None\', "12") and ones holding the characters str.splitlines() breaks at (FF, VT, FS, NEL, U+2028, U+2029).'
RULE += ' On the caching parser, texts are also submitted through eval() as instances of a str subclass whose == ignores case (the text, its case-swapped sibling, the text again): the tree eval evaluates must be the tree of that text.'
RULE += ' (c) coverage-guided texts: one atheris/libFuzzer process per worker (6 s quick, 150 s thorough) on the instrumented sandbox copy, differential target (reference lexer + reference parser vs parse(), accept-iff-accept and tree equality, the listed known finding excluded); every input on which the sides disagreed there is judged again by the worker.'
ASSUMPTIONS = [
    'R1 (lib/refparser.py) is the reading of "the published grammar and operator table": declared levels/associativity, '
    'yacc shift/reduce rule, greedy lambda bodies and conditional branches, the 8 slice forms, index-only assignment targets',
    'token strings are rendered with single blanks; lexing of tight layouts is C15/C18 territory',
    'any Exception raised by parse counts as "rejected" here (its class is judged by C16, its message by C20)',
]
FINDINGS = {
    'paren-single-param-lambda': '(x) => e is derivable (arglist_def : NAME) but rejected (reduce/reduce conflict resolved to expression : NAME)',
    'notin-grouped-with-prefix-not-level': 'a + b not in c groups as a + (b not in c): the token NOT decides with the level of prefix not',
    'dict-trailing-comma-2plus': '{k: v, k: v,} rejected for >= 2 entries',
    'method-trailing-comma-drops-arg': 'x.f(a, b,) / x | f(a, b,) drop the last argument',
}
QUIRK_OF = {'paren1': 'paren-single-param-lambda', 'notin': 'notin-grouped-with-prefix-not-level',
            'dictcomma': 'dict-trailing-comma-2plus', 'methcomma': 'method-trailing-comma-drops-arg'}
CASE_DEADLINE = 10


Cyc = gram.Cyc


def setup(ctx):
    from smartquery import SqParser
    ctx.P = SqParser()
    from smartquery import functions as _functions
    ctx.count('table_entries_unknown_to_the_pinned_tree_added_to_the_identifier_pool', len(gram.use_table_names(gram.table_names())))
    ctx.PC = SqParser(parse_cache={})     # texts that agree up to a '#' inside a string, or up to layout, must not share a tree
    ctx.all_prods = set(gram.PROD_IDS)


def cases(ctx):
    # canonical witnesses of the mechanisms this check can classify (always exercised)
    if ctx.shard == 0:
        for types in (['LPAREN', 'NAME', 'RPAREN', 'LAMBDA', 'NAME'],
                      ['NAME', 'PLUS', 'NAME', 'NOT', 'IN', 'NAME'],
                      ['NAME', 'EQ', 'NAME', 'NOT', 'IN', 'NAME'],
                      ['NOT', 'NAME', 'NOT', 'IN', 'NAME'],
                      ['LBRACE', 'NAME', 'COLON', 'NUMBER', 'COMMA', 'NAME', 'COLON', 'NUMBER', 'COMMA', 'RBRACE'],
                      ['NAME', 'DOT', 'NAME', 'LPAREN', 'NAME', 'COMMA', 'NUMBER', 'COMMA', 'RPAREN'],
                      ['NAME', 'PIPE', 'NAME', 'LPAREN', 'NAME', 'COMMA', 'NUMBER', 'COMMA', 'RPAREN'],
                      ['LPAREN', 'NAME', 'LBRACKET', 'NUMBER', 'RBRACKET', 'RPAREN', 'ASSIGN', 'NUMBER']):
            yield ('dir', tuple(types), 1)
    # (a) exhaustive
    n = 0
    maxlen = 4
    for L in range(0, maxlen + 1):
        for types in itertools.product(gram.ALPHA, repeat=L):
            if n % ctx.nshards == ctx.shard:
                yield ('exh', types, 0)
            n += 1
    if not ctx.quick:
        for types in itertools.product(gram.ALPHA_SMALL, repeat=5):
            if n % ctx.nshards == ctx.shard:
                yield ('exh5', types, 0)
            n += 1
    # (b) grammar-derived sentences and mutants
    rnd = ctx.rnd
    if os.environ.get('C06_ONLY') == 'cgf':          # development aid (never set by a registered command)
        yield ('cgf', rnd.getrandbits(30), ctx.scale(6, 150))
        return
    yield ('cgf', rnd.getrandbits(30), ctx.scale(6, 150))          # (c) coverage-guided texts, one differential fuzzing process per worker
    for i in range(ctx.scale(9000, 220000)):
        used = set()
        types = gram.gen('code', rnd, rnd.randint(2, 7), used)
        if len(types) > 70:
            continue
        seed = rnd.getrandbits(30)
        yield ('gram', tuple(types), seed, tuple(used))
        for _ in range(2):
            m = gram.mutate(types, rnd)
            yield ('mut', tuple(m), seed)
        # a second-order mutant now and then
        if rnd.random() < 0.3:
            yield ('mut2', tuple(gram.mutate(gram.mutate(types, rnd), rnd)), seed)


def impl_parse(ctx, text, cached=False):
    try:
        t = (ctx.PC if cached else ctx.P).parse(text)
    except Exception as e:  # class/message are other properties' business
        return ('rej', type(e).__name__)
    return ('ok', treeconv.norm(treeconv.conv(t)))


class CIText(str):
    """a source text that is a str subclass with an equality of its own (case-insensitive, as a host's rule-id or label type may have)"""
    def __eq__(self, other):
        return isinstance(other, str) and str.lower(self) == str.lower(other)

    def __ne__(self, other):
        return not self.__eq__(other)

    def __hash__(self):
        return hash(str.lower(self))


def eval_tree(ctx, text):
    """the tree that eval() of this text evaluates on the caching parser (captured where eval obtains it), in neutral form"""
    P = ctx.PC
    seen = []
    orig = P.parse

    def spy(expr):
        t = orig(expr)
        seen.append(t)
        return t
    P.parse = spy
    try:
        P.eval(text, {}, None, 1)
    except Exception as e:
        if not seen:
            return ('rej', type(e).__name__)
    finally:
        del P.parse
    if not seen or seen[0] is None:
        return ('none', None)
    return ('ok', treeconv.norm(treeconv.conv(seen[0])))


def ref_parse(toks, quirks=()):
    try:
        return ('ok', treeconv.norm(refparser.ref_parse(toks, quirks)))
    except refparser.Reject as e:
        return ('rej', e.why)
    except RecursionError:
        return ('skip', 'reference recursion')


def same(i, r):
    return i == r or (i[0] == 'rej' and r[0] == 'rej')


def judge_text(ctx, case, text):
    """a text as it stands (no rendering): reference lexer + reference parser vs parse()"""
    from lib import reflex
    try:
        toks = [(t[0], t[1]) for t in reflex.tokens(text)]
    except reflex.LexError:
        toks = None
    try:
        i = impl_parse(ctx, text, False)
    except RecursionError:
        return
    if i[0] == 'rej' and i[1] == 'RecursionError':
        return
    ctx.count('texts_judged_as_they_stand')
    if toks is None:
        if i[0] == 'ok':
            ctx.violation('implementation accepts a text the reference lexer rejects', case, detail={'text': text[:400], 'impl': str(i[1])[:400]})
        return
    r = ref_parse(toks)
    if r[0] == 'skip' or same(i, r):
        return
    finding = None
    for q in ('paren1', 'notin', 'dictcomma', 'methcomma'):
        if same(i, ref_parse(toks, (q,))):
            finding = QUIRK_OF[q]
            break
    what = ('implementation %s, reference %s' % ('accepts' if i[0] == 'ok' else 'rejects', 'accepts' if r[0] == 'ok' else 'rejects')
            if i[0] != r[0] else 'both accept, trees differ')
    ctx.violation(what, case, finding=finding, detail={'text': text[:400], 'impl': str(i[1])[:700], 'ref': str(r[1])[:700]})


def run_cgf(case, ctx):
    """coverage-guided generation of texts (atheris / libFuzzer on the instrumented sandbox copy, lib/cgfuzz.py, differential target); every input on which
    the two sides disagreed there is judged again here"""
    from lib import cgdriver
    _, seed, seconds = case
    r = random.Random(seed)
    seeds = ['x = [1, 2]\nx | map(v => v * 2)', 'f(1, {"a": b.c(d),}) if not x else y[1:2]', 'd["k"] += 1; del l[0]', '%a b% = r"\\d+" # c\n(p, q) => p ** -q', 'a and b not in c or not d == e',
             'x.f(1, 2,) | g | h(3)', 'v => w => v if w else 0', '-a[1] ** -b.c()', '{1: [2, {"k": (3)}], "s": \'q\'}', 'a < b', 'x = y = 1', '(a) => a', 'a.b', '1 2', 'for x']
    for i in range(12):
        seeds.append(gram.render(gram.gen('code', r, r.randint(1, 5))[:60], Cyc(r.getrandbits(20)))[1])
    out = cgdriver.run(ctx, 'c06', seed, seconds, seeds)
    if out is None:
        return
    st, fired, _slow = out
    for k in ('lexically_invalid', 'syntactically_invalid', 'valid', 'known_finding'):
        ctx.count('coverage_guided_texts_' + k, st.get(k, 0))
    for text in fired:
        ctx.count('inputs_on_which_the_two_sides_disagreed_in_the_fuzzing_process')
        before = len(ctx.violations)
        judge_text(ctx, ('text', text, 0), text)
        if len(ctx.violations) == before:
            ctx.violation('coverage-guided fuzzing: the two sides disagreed in the fuzzing process but not when the input was judged again here', ('text', text, 0), detail={'text': text[:300]})


def case_deadline(case):
    return case[2] + 200 if case[0] == 'cgf' else CASE_DEADLINE


def run_case(case, ctx):
    if case[0] == 'cgf':
        return run_cgf(case, ctx)
    if case[0] == 'text':
        return judge_text(ctx, case, case[1])
    kind, types, seed = case[0], case[1], case[2]
    simple = kind.startswith('exh')
    toks, text = gram.render(types, Cyc(seed + len(types)), simple=simple)
    if not simple and seed % 8 == 0:
        # the outcome must not depend on what the long-lived parser served before
        gram.earlier_call(ctx.P, Cyc(seed))
        ctx.count('cases_preceded_by_an_arbitrary_earlier_call')
    r = ref_parse(toks)
    if r[0] == 'skip':
        ctx.count('skipped_reference_recursion')
        return
    cached = (not simple) and seed % 5 == 1
    if cached:
        ctx.count('cases_on_a_caching_parser')
        if len(ctx.PC.parse_cache) > 3000:
            ctx.PC.parse_cache.clear()
    i = impl_parse(ctx, text, cached)
    ctx.count('impl_accepts' if i[0] == 'ok' else 'impl_rejects')
    if i[0] == 'rej' and i[1] != 'ParserError':
        ctx.count('impl_rejects_with_' + i[1])
    if i[0] == 'ok' or r[0] == 'ok':
        if simple:
            ctx.nontrivial_enum += 1
        else:
            ctx.nontriv(text)
        ctx.count('trees_compared' if (i[0] == 'ok' and r[0] == 'ok') else 'accept_vs_reject_compared')
    if kind == 'gram':
        for u in case[3]:
            ctx.cov('productions_used', gram.PROD_IDS[tuple(u)])
        if r[0] == 'ok':
            for p in gram.operator_pairs(types):
                ctx.cov('adjacent_operator_pairs', '%s %s' % p)
        if r[0] != 'ok':
            # a derivation of the grammar the reference rejects: only legitimate for nonassoc chains
            ctx.count('derivations_rejected_by_reference(nonassoc/ambiguity)')
    if ctx.counters['impl_accepts'] % 5000 == 1 and i[0] == 'ok':
        ctx.sample({'text': text, 'tree': str(i[1])[:300]})
    if cached and 'STRING' in types and same(i, r):
        # a sibling text that differs only INSIDE its string literals, parsed on the same caching parser: each must get its own tree
        toks2, text2 = gram.render(types, Cyc(seed + len(types)), pools={'STRING': ['"#fff"', "'n#1'", '"s"']})
        toks3, text3 = gram.render(types, Cyc(seed + len(types)), pools={'STRING': ['"#000"', "'n#2'", '"t"']})
        for tk, tx in ((toks2, text2), (toks3, text3)):
            i2, r2 = impl_parse(ctx, tx, True), ref_parse(tk)
            ctx.count('sibling_texts_on_the_caching_parser')
            if r2[0] != 'skip' and not same(i2, r2):
                ctx.violation('a text parsed on a caching parser after a sibling text (same up to the contents of a string literal) gets the wrong tree', case,
                              detail={'text': tx, 'impl': str(i2[1])[:400], 'ref': str(r2[1])[:400]})
                return
    if cached and same(i, r) and r[0] == 'ok' and seed % 2 == 0:
        # through eval(), with texts that are instances of a str subclass whose == ignores case: the tree evaluated is the tree of THAT text
        from lib import reflex
        for tx in (text, text.swapcase(), text):
            try:
                rx = ref_parse([(t[0], t[1]) for t in reflex.tokens(tx.rstrip())])
            except reflex.LexError:
                rx = ('rej', 'lexical')
            if rx[0] == 'skip':
                continue
            ix = eval_tree(ctx, CIText(tx))
            ctx.count('trees_evaluated_by_eval_compared(str-subclass texts)')
            if ix[0] == 'none' and rx[0] == 'ok':
                continue        # an empty program: eval has nothing to evaluate
            if not same(ix, rx):
                known = any(same(ix, ref_parse([(t[0], t[1]) for t in reflex.tokens(tx.rstrip())], (q,))) for q in ('paren1',))
                if not known:
                    ctx.violation('eval() of a text (a str subclass instance) on a caching parser evaluates a tree that is not the tree of that text', case,
                                  detail={'text': tx, 'impl': str(ix[1])[:400], 'ref': str(rx[1])[:400]})
                    return
    if same(i, r):
        return
    # disagreement: which single mechanism (if any) explains it?
    finding = None
    for q in ('paren1', 'notin', 'dictcomma', 'methcomma'):
        if same(i, ref_parse(toks, (q,))):
            finding = QUIRK_OF[q]
            break
    what = ('implementation %s, reference %s' % ('accepts' if i[0] == 'ok' else 'rejects', 'accepts' if r[0] == 'ok' else 'rejects')
            if i[0] != r[0] else 'both accept, trees differ')
    ctx.violation(what, case, finding=finding, detail={'text': text, 'impl': str(i[1])[:700], 'ref': str(r[1])[:700]})


def conclusive(m):
    if m['counters'].get('trees_compared', 0) < 1000:
        return 'fewer than 1000 tree comparisons happened'
    missing = set(gram.PROD_IDS.values()) - set(m['cover'].get('productions_used', ()))
    if missing:
        return 'productions never used by the sentence generator: %s' % sorted(missing)[:5]
    if len(m['cover'].get('adjacent_operator_pairs', ())) < 0.9 * len(gram.OPERATOR_TOKENS) ** 2 * 0.8:
        return 'too few adjacent operator pairs exercised: %d' % len(m['cover'].get('adjacent_operator_pairs', ()))
    return None
