"""C19 - rand / shuffle stay within their documented range.

Monitor: online range/identity assertions on every draw, through SqParser.eval on the real builtins.
"""
import random
from decimal import Decimal

ID = 'C19'
TECHNIQUE = 'runtime monitor: range/identity assertions on every draw, incl. extreme outputs of the underlying generator and varying bounds at one call site'
RULE = ('inputs: rand() ; rand(a, b) for integer-valued a <= b given as source literals (incl. unary minus), host ints, '
        'host Decimals (plain and with positive exponent), integer-valued host floats and bools, a == b, negative, spanning '
        'zero, up to 10^30 wide ; rand(list) and shuffle(list) for host and program-built lists (length 1-50, duplicates, '
        'nested, aliased elements). Each input is drawn DRAWS times under a per-case seed of the module random. A case is '
        'non-trivial when every draw was checked by the range/identity oracle; distinct = distinct (form, a, b | list shape).')
RULE += ' Also: integer-valued decimals with trailing fractional zeros and computed bounds, bounds that change at one call site (map(ns, n => rand(-n, n)), caching parser), the extreme outputs of the underlying generator for rand(), and arbitrary earlier calls (incl. evals without a names mapping that bind rand/shuffle).'
ASSUMPTIONS = ['draws come from the module-level `random` generator, which the harness seeds per case',
               '"integer-valued number" includes bool, int, integer-valued float and Decimal (any exponent)']
FINDINGS = {}
CASE_DEADLINE = 30


def setup(ctx):
    from smartquery import SqParser
    ctx.P = SqParser()
    ctx.PC = SqParser(parse_cache={})
    ctx.draws = ctx.scale(120, 400)


def int_pool(rnd):
    base = [0, 1, -1, 2, 3, 7, 10, -10, 99, 100, -100, 255, 10 ** 6, -10 ** 6, 10 ** 18, 10 ** 30, -10 ** 30, 2 ** 63, 2 ** 64 + 1]
    return rnd.choice(base) if rnd.random() < 0.6 else rnd.randint(-10 ** rnd.randint(1, 30), 10 ** rnd.randint(1, 30))


def as_kind(n, kind):
    if kind == 'int':
        return n
    if kind == 'dec':
        return Decimal(n)
    if kind == 'dectz':   # same value written with trailing fractional zeros (2.00): still an integer-valued number
        return Decimal(str(n) + '.' + '0' * (1 + abs(n) % 3))
    if kind == 'decexp':  # same value, positive exponent when possible
        digits = str(abs(n))
        z = len(digits) - len(digits.rstrip('0')) if n != 0 else 0
        # exact construction (normalize() would round to the context precision)
        return Decimal((0 if n >= 0 else 1, tuple(map(int, digits[:len(digits) - z])), z))
    if kind == 'float':
        return float(n)
    if kind == 'bool':
        return bool(n)
    raise ValueError(kind)


def cases(ctx):
    rnd = ctx.rnd
    if ctx.shard == 0:
        yield ('ab', 'lit', 1, 10, None)       # the excluded baseline test test_rand_ab
        yield ('ab', 'host', 1, 10, ('int', 'int'))
        yield ('rand0',)
        yield ('rand0-extreme',)
        yield ('varying', [7, 3, 5, 1, 12])
        yield ('varying', [2, 9, 4])
    n = ctx.scale(1000, 6000)
    for i in range(n):
        r = rnd.random()
        if i % 25 == 0:
            yield ('varying', [rnd.randint(0, 50) for _ in range(rnd.randint(2, 6))])
        if r < 0.08:
            yield ('rand0',)
        elif r < 0.6:
            a = int_pool(rnd)
            w = rnd.choice([0, 0, 1, 2, 3, 9, 10, 1000, 10 ** 12, 10 ** 30])
            b = a + w
            if rnd.random() < 0.45 and max(abs(a), abs(b)) < 10 ** 28:
                # literals wider than 28 digits are rounded by unary minus before rand sees them
                # (28-digit arithmetic, C08); such bounds are supplied as host ints instead
                yield ('ab', 'lit', a, b, None)
            else:
                ka, kb = rnd.choice(['int', 'dec', 'decexp', 'dectz', 'float', 'bool']), rnd.choice(['int', 'dec', 'decexp', 'dectz', 'float'])
                if ka == 'bool':
                    a, b = rnd.choice([(0, 0), (0, 1), (1, 1), (0, 5), (1, 3)])
                if 'float' in (ka, kb) and max(abs(a), abs(b)) > 2 ** 52:
                    a, b = a % 1000, a % 1000 + w % 1000
                yield ('ab', 'host', a, b, (ka, kb))
        else:
            ln = rnd.choice([1, 1, 2, 3, 5, 8, 20, 50])
            shape = rnd.choice(['ints', 'dups', 'nested', 'aliased', 'mixed'])
            where = rnd.choice(['host', 'prog'])
            yield (rnd.choice(['choice', 'shuffle']), where, ln, shape, rnd.getrandbits(20))


def build_list(ln, shape, seed):
    r = random.Random(seed)
    if shape == 'ints':
        return [Decimal(r.randint(-50, 50)) for _ in range(ln)]
    if shape == 'dups':
        return [Decimal(r.randint(0, 2)) for _ in range(ln)]
    if shape == 'nested':
        return [[Decimal(i), [str(i)]] for i in range(ln)]
    if shape == 'aliased':
        x = [Decimal(1)]
        return [x if r.random() < 0.5 else {'k': Decimal(i)} for i in range(ln)]
    return [r.choice([None, True, 'a', Decimal('1.5'), [], {}]) for _ in range(ln)]


def lit(n):
    return str(n) if n >= 0 else '-' + str(-n)


def run_case(case, ctx):
    from smartquery.exceptions import ParserError  # noqa
    P = ctx.P
    if hash(str(case)) % 9 == 0:
        from lib import gram
        gram.earlier_call(P, gram.Cyc(hash(str(case)) & 0xffff))
        gram.earlier_call(ctx.PC, gram.Cyc(hash(str(case)) & 0xfff))
        ctx.count('cases_preceded_by_an_arbitrary_earlier_call')
    random.seed(hash(str(case)) & 0xffffffff)
    kind = case[0]
    ok = True
    if kind == 'rand0':
        for _ in range(ctx.draws):
            try:
                v = P.eval('rand()')
            except Exception as e:
                ctx.violation('rand() raised', case, detail={'error': '%s: %s' % (type(e).__name__, str(e)[:100])})
                ok = False
                break
            ctx.count('draws_rand0')
            if isinstance(v, bool) or not isinstance(v, (int, float, Decimal)) or not (0 <= v < 1):
                ctx.violation('rand() outside [0, 1) or not a number', case, detail={'value': repr(v)})
                ok = False
                break
    elif kind == 'rand0-extreme':
        # the extreme outputs of the underlying generator (largest double below 1, zero, the smallest positive doubles): sampling would never draw them
        real = random.random
        try:
            for x in (1 - 2 ** -53, 1 - 2 ** -52, 1 - 3 * 2 ** -53, 0.0, 5e-324, 2 ** -53, 0.5, 0.9999999999999999, 0.999999999999999):
                random.random = lambda x=x: x
                v = P.eval('rand()')
                ctx.count('draws_rand0_extreme')
                if isinstance(v, bool) or not isinstance(v, (int, float, Decimal)) or not (0 <= v < 1):
                    ctx.violation('rand() outside [0, 1) for an extreme output of the underlying generator', case, detail={'generator_output': repr(x), 'value': repr(v)})
                    ok = False
                    break
        finally:
            random.random = real
    elif kind == 'varying':
        # one call site, bounds that change from one evaluation of it to the next (inside map, and across evals of one cached text)
        ns = [Decimal(x) for x in case[1]]
        PC = ctx.PC
        for src in ('map(ns, n => rand(-n, n))', 'map(ns, n => rand(-n, -n))', 'map(ns, n => rand(n, n + 1))', 'map(ns, n => [rand(0 - n, 0), n][0])'):
            for _ in range(3):
                try:
                    out = P.eval(src, {'ns': list(ns)}, None, 10 ** 4)
                except Exception as e:
                    ctx.violation('rand raised inside map for integer bounds', case, detail={'src': src, 'error': str(e)[:100]})
                    ok = False
                    break
                ctx.count('draws_varying_bounds', len(out))
                for n, v in zip(ns, out):
                    lo, hi = {'map(ns, n => rand(-n, n))': (-n, n), 'map(ns, n => rand(-n, -n))': (-n, -n), 'map(ns, n => rand(n, n + 1))': (n, n + 1)}.get(src, (-n, 0))
                    if not (lo <= v <= hi) or v != int(v):
                        ctx.violation('rand(a, b) outside [a, b] when the same call site is evaluated with changing bounds', case, detail={'src': src, 'ns': repr(ns), 'result': repr(out)})
                        ok = False
                        break
                if not ok:
                    break
            if not ok:
                break
        for n in ns:
            if not ok:
                break
            try:
                v = PC.eval('rand(-n, n)', {'n': n})       # same text, cached tree, other n
            except Exception as e:
                ctx.violation('rand(-n, n) raised on a caching parser', case, detail={'n': repr(n), 'error': '%s: %s' % (type(e).__name__, str(e)[:100])})
                ok = False
                break
            ctx.count('draws_varying_bounds')
            if not (-n <= v <= n) or v != int(v):
                ctx.violation('rand(-n, n) outside [-n, n] on a caching parser after earlier calls with another n', case, detail={'n': repr(n), 'value': repr(v)})
                ok = False
    elif kind == 'ab':
        _, mode, a, b, kinds = case
        if mode == 'lit':
            form = (a * 31 + b) % 4 if max(abs(a), abs(b)) < 10 ** 12 else 0     # wide bounds stay plain literals (28-digit arithmetic would round computed ones)
            if form == 0:
                src, names = 'rand(%s, %s)' % (lit(a), lit(b)), {}
            elif form == 1:
                src, names = 'rand(%s.0, %s.00)' % (lit(a), lit(b)), {}          # integer-valued decimals with trailing zeros
            elif form == 2:
                src, names = 'rand(%s * 1.0, 0.5 * %s * 2)' % (lit(a), lit(b)), {}  # computed, integer-valued
            else:
                src, names = 'rand(0 - n, m)', {'n': -a, 'm': b}
        else:
            src, names = 'rand(a, b)', {'a': as_kind(a, kinds[0]), 'b': as_kind(b, kinds[1])}
        seen = set()
        for _ in range(ctx.draws):
            try:
                v = P.eval(src, dict(names))
            except Exception as e:
                ctx.violation('rand(a, b) raised for integer-valued a <= b', case,
                              detail={'src': src, 'names': repr(names), 'error': '%s: %s' % (type(e).__name__, e)})
                ok = False
                break
            ctx.count('draws_rand_ab')
            if isinstance(v, bool) or not isinstance(v, (int, float, Decimal)) or v != v or v != int(v) or not (a <= v <= b):
                ctx.violation('rand(a, b) returned a value outside [a, b] or not integer-valued', case,
                              detail={'src': src, 'names': repr(names), 'value': repr(v)})
                ok = False
                break
            seen.add(int(v))
        if ok and b - a <= 3 and ctx.draws >= 100:
            ctx.count('small_ranges_checked')
            if len(seen) == b - a + 1:
                ctx.count('small_ranges_fully_covered')
        ctx.cov('bound_kinds', 'literal' if mode == 'lit' else '%s,%s' % kinds)
        ctx.cov('range_class', 'a==b' if a == b else ('neg' if b < 0 else ('span0' if a < 0 else 'pos')) + (',wide' if b - a > 10 ** 9 else ''))
    else:
        _, where, ln, shape, seed = case
        l = build_list(ln, shape, seed)
        ids = [id(x) for x in l]
        if where == 'host':
            names = {'l': l}
            pre = ''
        else:
            names = {'h': l}
            pre = 'l = h\n'  # a program-owned copy
        for _ in range(max(10, ctx.draws // 10)):
            try:
                probe = P.eval(pre + ('[rand(l), l]' if kind == 'choice' else '[shuffle(l), l]'), names)
            except Exception as e:
                ctx.violation('%s raised for a non-empty list' % ('rand(list)' if kind == 'choice' else 'shuffle(list)'), case, detail={'error': '%s: %s' % (type(e).__name__, str(e)[:100])})
                ok = False
                break
            if kind == 'choice':
                v, cur = probe
                ctx.count('draws_rand_list')
                if not any(v is x for x in cur):
                    ctx.violation('rand(list) returned something that is not an element', case, detail={'value': repr(v)[:200]})
                    ok = False
                    break
            else:
                s, cur = probe
                ctx.count('draws_shuffle')
                if s is cur or not isinstance(s, list):
                    ctx.violation('shuffle returned its argument / not a list', case, detail={'value': repr(s)[:200]})
                    ok = False
                    break
                if sorted(map(id, s)) != sorted(map(id, cur)):
                    ctx.violation('shuffle result is not a permutation of the elements', case, detail={'value': repr(s)[:200]})
                    ok = False
                    break
            if [id(x) for x in l] != ids or len(cur) != ln:
                ctx.violation('%s changed its argument' % kind, case, detail={'after': repr(l)[:200]})
                ok = False
                break
        ctx.cov('list_shapes', '%s/%s/%s' % (kind, where, shape))
    if ok:
        ctx.nontriv(repr(case[:4]) if kind not in ('rand0', 'rand0-extreme') else kind)
    if ctx.evaluations % 17 == 1:
        ctx.sample({'case': case})


def conclusive(m):
    c = m['counters']
    for k in ('draws_rand0', 'draws_rand_ab', 'draws_rand_list', 'draws_shuffle'):
        if c.get(k, 0) < 100:
            return 'monitor %s observed only %d draws' % (k, c.get(k, 0))
    if len(m['cover'].get('bound_kinds', ())) < 8:
        return 'too few bound type combinations'
    return None
