"""C11 - history independence: every call depends only on its own arguments.

Monitors: M2 (call-boundary log of parse / eval / list_names on one long-lived SqParser: arguments, outcome,
names afterwards), M7 (at the first token pull of every call the lexer must be in its pristine start state:
every scalar attribute equal to what a freshly constructed parser shows at its first pull), decimal-context and
builtin-table snapshots.  Offline oracle over the call log: "the outcome is a function of the visible
arguments" - calls are grouped by (entry point, source, fingerprint of names, budget); every group gets one
history-free member computed on a freshly constructed SqParser, and all members of a group must be equal.
"""
import copy
import decimal
import os
import random
import re
from decimal import Decimal

from lib import monitors, treeconv

ID = 'C11'
TECHNIQUE = 'offline history checker: call log grouped by visible arguments vs history-free calls (fresh parser, fresh process) + lexer start-state monitor; coverage-guided texts (atheris) as history of one long-lived parser'
RULE = ('histories of 5-40 calls on one SqParser (plain and with a dict parse cache) over a corpus of valid, lexically invalid, syntactically invalid (mid-text, premature end, '
        'unbalanced open and close brackets, failing inside brackets on a later line), run-time failing, budget-exhausting and host-callback-raising sources; entry points parse, '
        'eval, list_names fully consumed and list_names abandoned after k names; names mappings: fresh per call (several templates) and mappings that persist across calls and are '
        'written by the programs (incl. lambdas defined by one call and invoked by a later one). Every (predecessor kind -> successor entry point) pair is exercised. '
        'Non-trivial = a call whose outcome was compared with the history-free outcome for the same visible arguments; distinct = distinct (history prefix hash, call).')
RULE += ' A sample of the calls is also replayed in a fresh process (state at module level); names templates include one that shadows builtins and a read-only mapping; corpora contain equal-but-differently-spelled literals whose text is exposed.'
RULE += ' Sweep: every text of the corpus, twice, on one long-lived parser per worker process, each outcome compared with the outcome of the same call in a fresh process (a zygote forks a child per distinct call; only the child imports the package; outcomes are shared between workers); the corpus includes texts that raise decimal signals (underflow) and print equal numbers written differently.'
RULE += ' Template rotation: texts of the corpus evaluated under all six names templates in a row (random order) on the long-lived plain and caching parsers, each outcome against a history-free parser.'
RULE += ' Histories also contain eval(text) calls with the names argument omitted, and the second pass of the sweep evaluates every text that way.'
RULE += ' Names templates carry host containers with a copy protocol of their own (a frozen Box is its own deep copy, a mutable one is copied).'
RULE += ' Coverage-guided texts: one atheris/libFuzzer process per worker (5 s quick, 100 s thorough) sends every generated text through parse, eval and list_names on ONE long-lived parser - whose history is everything generated before, most of it broken - and on a deep copy of a never-used parser; a difference recorded there is judged again by the worker and, the history being another one here, usually reported as not reproduced.'
ASSUMPTIONS = ['visible arguments = source text, budget, and the contents of names with callables treated as opaque (equal if both are callables)',
               'a partially consumed list_names generator is abandoned, never resumed after another call',
               'a history-free parser is a freshly constructed SqParser (about one in seven) or a deep copy of a constructed-but-never-used one (17 ms instead of 130 ms); it serves exactly one call']
FINDINGS = {
    'stale-lambda-state': 'a lambda kept in a persistent names mapping carries the VM state (op counter, budget) of the call that created it, so equal visible arguments give different outcomes',
}
CASE_DEADLINE = 120
D = Decimal
SKIP_ATTRS = {'lexdata', 'lexlen', 'ast', 'lexmatch'}

VALID = ['x = 5\nx', 'len = 3\nlen', 'y = [1]\ny', 'sum([1, 2])', 'zz = 1',  '1 + 2', 'x = 1\nx + 1', 'x = 1;y = 2;x + y', '[1,\n 2,\n 3] | len', 'f = v => v * 2\nf(4)', '{"a": 1,\n "b": [2, 3]}["b"][0]', 'len("abc") # c\n', 'a = [1, 2]\npush(a, 3)\na',
         'x = 1\n\n\ny = x\ny', 'map([1, 2, 3], v => v + 1)', '"s" + 1.50', 'n = 3\nn *= 2\nn', 'd = {}\nd["k"] = 1\nd', 'sorted([3, 1, 2])\n', 'not True or 1 in [1]', '1 if 2 > 1 else 3',
         'x.upper() if False else hs', '0.1 + 0.2 == 0.3', '1 / 3', 'round(2.675, 2)', 'cnt += 1\ncnt', 'acc | push(len(acc))\nacc', 'g = n => n + cnt\ng(1)', 'g(2)', 'f(1)', 'f(2)',
         'f = n => [n, n + 1, n + 2] | map(v => v * 2)', 'len(x)', 'str(1) + "!"', 'max(1, 2)', '[len("ab"), max(3, 4)]', 'x | len', '2 ** 0.5', '(1 / 3) * 3',
         '"price: " + 2.50', 'x = 2.5 * 4\nx', '{2: "x"} | keys', '{0.5 * 4: "x"} | keys', '{7.5: 1} | keys', '{7.50: 1} | keys', 'q = {}\nq[True] = 1\nq', 'q = {}\nq[1] = 1\nq', 'q = {}\nq[1.0] = 2\nq',
         'total = 41\ntotal + 1', 'total + 1', 'list = 5\nlist', '[1, 2]', 'max = 10\nmax', 'yf = fb\nlen(yf)', 'ym = mb\npush(ym, 99)\nmb', 'ym2 = [mb, fb]\npush(ym2[0], 1)\n[mb, ym2]', 'yf += fb\nyf' if False else 'zf = [fb]\nzf', '10 ** -2000000', '2.50 ** 1', '1.10 ** 2', 'pretty(2500000)', 'pretty(2500000.0)', 'pretty(2500000.00)', 'pretty(7)', 'pretty(7.00)',
         'pretty([1, 1.0, 1.00])', 'pretty({"a": 2.50})', '[round(2.50, 1), round(2.5, 1)]', 'str(7.00) + str(7)', '0.000000000000000000000000000001 * 0.000000000000000000000000000001',
         'match_all("a1b22", r"\\d+")', 'match("abc", "B", "i")', 'sorted([2.0, 2, 1.50])', 'str(1.0)', '{1: "a", 1.0: "b"} | keys', '"n=" + 1', '[2.5, 2.50, 1, 1.0, 007, 7] | map(v => str(v))', 'str(10.0) + str(10)']
LEXBAD = ['1 + $', 'x = 1\ny = ?', '"unterminated', 'a \\ b', 'f(1,\n 2, ` )', '[1, 2\r3]', 'x = 1 # fine\ny = ~x']
SYN_MID = ['1 + * 2', 'x = = 1', 'a b', 'f(1 2)', 'x = 1\ny = 2 3\nz = 4', 'if else', '1 +\n2', 'del x', 'x => => 1']
SYN_END = ['2.5 +', '1.0 +', '1 +', 'f(', 'x =', '[1, 2', '{"a": ', 'a.b', '(x, y) =>', 'x = [1,\n2,', 'f(1,\n g(2,\n']
UNB_OPEN = ['f(1, [2', '((((', '{"a": [1, (2', 'x = [\n1,\n2', 'map([1, 2], v => (v', 'f(1,\n\n']
UNB_CLOSE = ['1)', 'x = 2]', '}', 'f(1))', '[1, 2]]\n3', 'a = 1\n)\nb = 2', ')))))']
RUNTIME = ['nope', '1 / 0', 'nofn(1)', '[1][5]', 'pop([])', '{"a": 1}["b"]', 'x = 1\ny = x + nope\ny', '1 + "a"', 'len(5)', 'u += 1', 'round(1.5, 200)', 'round("1.5", 1)',
           'round(123456789012345678901234567890123456789012345678901234567890.5, 5)']
OPSLIM = ['f = n => f(n + 1)\nf(0)', 'map([1, 2, 3, 4, 5, 6, 7, 8, 9, 10], v => map([1, 2, 3, 4, 5, 6, 7, 8, 9, 10], w => v * w))', '1 + 2 + 3 + 4 + 5 + 6 + 7 + 8 + 9 + 10 + 11 + 12']
HOSTRAISE = ['boom(1)', 'map([1, 2], v => boom(v))', 'x = 1\nboom(x)\ny = 2']
LN = ['a b c d', 'x + (y * [z', 'p $ q', 'msg.', 'msg | ', 'f(a, b)', 'not ready and ok', 'a = total % 10\nb = count % 3', '%a b% + c', '"s" name # c\nother']
KINDS = {'ok': VALID, 'lexical': LEXBAD, 'syntax-mid': SYN_MID, 'premature-end': SYN_END, 'unbalanced-open': UNB_OPEN, 'unbalanced-close': UNB_CLOSE, 'runtime': RUNTIME,
         'ops-limit': OPSLIM, 'host-raise': HOSTRAISE, 'names-text': LN}


class Boom(Exception):
    pass


def boom(*a):
    raise Boom('host callback failed')


class Box(list):
    """a host container with a copy protocol of its own: a frozen box is its own deep copy (legitimate for an immutable value), a mutable one is copied"""
    frozen = False

    def __deepcopy__(self, memo):
        if self.frozen:
            return self
        b = Box(copy.deepcopy(list(self), memo))
        return b


def fresh_names(template):
    fb = Box([D(1)])
    fb.frozen = True
    base = {'x': 'abc', 'hs': 'host', 'cnt': D(0), 'acc': [], 'boom': boom, 'fb': fb, 'mb': Box([D(2), D(4)])}
    if template == 1:
        base.update({'x': D(5), 'len': lambda v: 42})
    elif template == 2:
        base = {'boom': boom}
    elif template == 3:
        base.update({'cnt': D(10), 'acc': [D(1)], 'f': (lambda v: 'host-f')})
    elif template == 4:
        base.update({'max': D(10), 'str': (lambda v: 'S'), 'len': D(3)})
    elif template == 5:
        import types
        return types.MappingProxyType(base)      # a names mapping the program cannot write to
    return base


def norm_value(v, depth=0):
    """comparable rendering of a result: callables opaque, addresses removed"""
    if callable(v):
        return '<callable>'
    if isinstance(v, Decimal):
        return 'D:' + str(v)
    if isinstance(v, (list, tuple)):
        return [type(v).__name__] + [norm_value(x, depth + 1) for x in v]
    if isinstance(v, dict) or type(v).__name__ == 'mappingproxy':
        return {ADDR.sub('0x', str(k)): norm_value(x, depth + 1) for k, x in v.items()}
    if isinstance(v, str):
        return 'str:%r' % ADDR.sub('0x', v)          # (the text of a callable that was concatenated into a string carries an address)
    if isinstance(v, (int, float, bool)) or v is None:
        return '%s:%r' % (type(v).__name__, v)
    return 'obj:' + type(v).__name__


ADDR = re.compile(r'0x[0-9a-f]+')


def norm_exc(e):
    return '%s: %s' % (type(e).__name__, ADDR.sub('0x', str(e))[:200])


def do_call(P, entry, src, names, budget, k=None):
    """-> outcome (comparable)"""
    try:
        if entry == 'parse':
            return ('ok', str(treeconv.norm(treeconv.conv(P.parse(src)))))
        if entry == 'eval':
            if names is None:
                v = P.eval(src, max_ops_evaluated=budget) if budget is not None else P.eval(src)         # the names argument omitted
            else:
                v = P.eval(src, names, None, budget) if budget is not None else P.eval(src, names)
            return ('ok', norm_value(v), norm_value(names))
        if entry == 'list_names':
            return ('ok', list(P.list_names(src)))
        if entry == 'list_names_partial':
            g = P.list_names(src)
            out = []
            for _ in range(k):
                try:
                    out.append(next(g))
                except StopIteration:
                    break
            return ('ok', out)       # generator abandoned here
    except RecursionError:
        return ('recursion',)
    except Exception as e:
        if entry == 'eval':
            return ('exc', norm_exc(e), norm_value(names))
        return ('exc', norm_exc(e))


def core_verif():
    return os.path.dirname(os.path.dirname(os.path.abspath(__file__)))


def fresh_process_outcome(ctx, entry, src, template, budget, k, spend=True):
    """outcome of the call in a process that has served nothing else; computed once per distinct call (a fresh process has no history, so its outcome
    is a function of the arguments alone) and shared between the workers through files beside the sandbox; None = not available within the budget"""
    import hashlib
    import pickle
    import subprocess
    import sys as _sys
    fk = repr((entry, src, template if entry == 'eval' else 0, budget if entry == 'eval' else None, k if entry == 'list_names_partial' else None))
    if fk in ctx.fresh_memo:
        return ctx.fresh_memo[fk]
    d = os.path.join(ctx.sandbox_dir, '_fresh_outcomes')
    path = os.path.join(d, hashlib.sha1(fk.encode('utf8', 'replace')).hexdigest())
    try:
        with open(path, 'rb') as f:
            got = pickle.load(f)
        if got[0] == fk:
            ctx.fresh_memo[fk] = got[1]
            return got[1]
    except Exception:
        pass
    if not spend:
        return None

    if spend != 'always' and ctx.fresh_spawned >= ctx.fresh_budget:
        ctx.count('fresh_process_lookups_skipped(budget of this run spent)')
        return None
    if spend != 'always':
        ctx.fresh_spawned += 1
    # one worker computes a given outcome: the others wait for its file (briefly) instead of spawning the same process
    try:
        os.makedirs(d, exist_ok=True)
        fd = os.open(path + '.claim', os.O_CREAT | os.O_EXCL | os.O_WRONLY)
        os.close(fd)
    except FileExistsError:
        import time as _time
        for _ in range(40):
            _time.sleep(0.1)
            try:
                with open(path, 'rb') as f:
                    got = pickle.load(f)
                if got[0] == fk:
                    ctx.fresh_memo[fk] = got[1]
                    return got[1]
            except Exception:
                pass
        ctx.count('fresh_process_outcomes_not_awaited_any_longer')
        return None
    except OSError:
        pass
    req = {'sandbox': ctx.sandbox_dir, 'entry': entry, 'src': src, 'template': template, 'budget': budget, 'k': k}
    fresh = None
    try:
        import struct
        z = ctx.zygote
        if z is None or z.poll() is not None:
            z = ctx.zygote = subprocess.Popen([_sys.executable, '-m', 'lib.fresh_call', '--serve'], stdin=subprocess.PIPE, stdout=subprocess.PIPE,
                                              cwd=core_verif(), env=dict(os.environ, PYTHONHASHSEED='0'))
        data = pickle.dumps(req)
        z.stdin.write(struct.pack('>I', len(data)) + data)
        z.stdin.flush()
        head = z.stdout.read(4)
        n = struct.unpack('>I', head)[0] if len(head) == 4 else 0
        body = z.stdout.read(n) if n else b''
        fresh = pickle.loads(body) if body else None
    except Exception:
        fresh = None
        try:
            ctx.zygote.kill()
        except Exception:
            pass
        ctx.zygote = None
    if fresh is None:
        ctx.count('fresh_process_calls_failed(harness)')
        return None
    ctx.count('fresh_processes_spawned')
    ctx.fresh_memo[fk] = fresh
    try:
        os.makedirs(d, exist_ok=True)
        tmp = '%s.%d' % (path, os.getpid())
        with open(tmp, 'wb') as f:
            pickle.dump((fk, fresh), f)
        os.replace(tmp, path)
    except OSError:
        pass
    return fresh


def lexer_scalars(lex):
    out = {}
    for k, v in lex.__dict__.items():
        if k in SKIP_ATTRS:
            continue
        if isinstance(v, (int, str, bool, float)) or v is None:
            out[k] = v
    return out


def setup(ctx):
    from smartquery import SqParser
    from smartquery import functions
    ctx.SqParser = SqParser
    ctx.functions = functions
    ctx.table_snapshot = [(k, id(v)) for k, v in functions.FUNCTIONS.items()]
    c = decimal.getcontext()
    ctx.decimal_context = (c.prec, c.rounding, c.Emax, c.Emin)
    ctx.M1 = M1 = monitors.NodeMonitor()
    ctx.cur = {'first': None, 'foreign': 0}

    def on_enter(node, state):
        cur = ctx.cur
        if cur['first'] is None:
            cur['first'] = id(state)
        elif id(state) != cur['first']:
            cur['foreign'] += 1
    M1.on_enter = on_enter
    # baseline: what a freshly constructed parser shows at the first token pull of its first call
    P = SqParser()
    M7 = monitors.TokenMonitor(P)
    M7.begin()
    seen = {}
    orig_token = P.lex.token

    def first_pull():
        if not seen:
            seen.update(lexer_scalars(P.lex))
        return orig_token()
    P.lex.token = first_pull
    P.parse('1')
    ctx.baseline = dict(seen)
    ctx.memo = {}
    ctx.fresh_built = 0
    ctx.fresh_memo = {}
    ctx.zygote = None
    ctx.textP = None
    ctx.sweepP = None
    ctx.fresh_spawned = 0
    ctx.fresh_budget = ctx.scale(0, 150)
    ctx.pristine = SqParser()
    # table enumeration: the result of a builtin mutated in place by the program, then the same call again - for container-returning entries of the pinned
    # table and, with several argument shapes, for every entry the pinned table does not have (state kept by a builtin shows in the sweep)
    from lib import gram
    extra = []
    for name, args in (('split', '"a,b,c", ","'), ('sorted', '[3, 1, 2]'), ('keys', '{"a": 1, "b": 2}'), ('values', '{"a": [1]}'), ('items', '{"a": 1}'), ('list', '1, 2'), ('dict', '{"a": 1}'),
                       ('match_all', '"a1b22", r"\\d+"'), ('reversed', '[1, 2, 3]'), ('map', '[1, 2], v => [v]'), ('filter', '[1, 0, 2], v => v'), ('enumerate', '["a", "b"]')):
        if name in functions.FUNCTIONS:
            extra.append('__setitem__(%s(%s), 0, 99)\n%s(%s)' % (name, args, name, args))
            extra.append('%s(%s)' % (name, args))
    for name in gram.new_table_names():
        for args in ('"[1, 2, 3]"', '[3, 1, 2]', '{"a": [1], "b": 2}', '"a,b", ","', '5', '"abc"', '[1, 2], v => v', '{"a": 1}, {"a": 2}'):
            extra.append('__setitem__(%s(%s), 0, 99)\n%s(%s)' % (name, args, name, args))
            extra.append('__setitem__(%s(%s), "zz", 99)\npop(%s(%s))\n%s(%s)' % ((name, args) * 3))
            extra.append('%s(%s)' % (name, args))          # ... and the plain call, whose outcome must not depend on whether the texts above ran before
    for t in extra:
        if t not in VALID:
            VALID.append(t)
    ctx.count('table_enumeration_texts_in_the_corpus', len(extra))


def gen_history(r):
    n = r.randint(5, 40)
    calls = []
    # a history works on a small subset of the corpus, so that the same text recurs with other names / after other predecessors
    subset = {k: r.sample(v, min(len(v), r.randint(1, 3) if k != 'ok' else r.randint(2, 6))) for k, v in KINDS.items()}
    for _ in range(n):
        kind = r.choice(list(KINDS) + ['ok', 'ok'])
        src = r.choice(subset[kind])
        entry = r.choice(['parse', 'eval', 'eval', 'list_names', 'list_names_partial'])
        if kind == 'names-text' and entry in ('parse', 'eval') and r.random() < 0.7:
            entry = r.choice(['list_names', 'list_names_partial'])
        names_mode = r.choice(['fresh0', 'fresh1', 'fresh2', 'fresh3', 'fresh4', 'fresh5', 'persistA', 'persistA', 'persistB', 'none', 'none'])
        budget = r.choice([None, None, 30, 1000])
        calls.append((kind, entry, src, names_mode, budget, r.randint(0, 3)))
    return calls


def cases(ctx):
    rnd = ctx.rnd
    if ctx.shard == 0:
        yield ('hist', [('ok', 'eval', 'f = n => [n, n + 1, n + 2] | map(v => v * 2)', 'persistA', 100, 0)] + [('ok', 'eval', 'f(1)', 'persistA', 10, 0)] * 4, False)
        yield ('hist', [('unbalanced-open', 'parse', 'f(1, [2', 'fresh0', None, 0), ('ok', 'parse', 'x = 1\nx + 1', 'fresh0', None, 0), ('syntax-mid', 'parse', '1 +\n2', 'fresh0', None, 0)], False)
        yield ('hist', [('runtime', 'eval', 'round(1.5, 200)', 'fresh0', None, 0), ('ok', 'eval', '1 / 3', 'fresh0', None, 0)], False)
        yield ('hist', [('names-text', 'list_names_partial', 'msg.', 'fresh0', None, 3), ('names-text', 'list_names', 'not ready and ok', 'fresh0', None, 0)], False)
        yield ('hist', [('names-text', 'list_names_partial', 'a b c d', 'fresh0', None, 1), ('names-text', 'list_names', 'a b c d', 'fresh0', None, 0)], True)
    yield ('cgf', rnd.getrandbits(30), ctx.scale(5, 100))          # coverage-guided texts, one fuzzing process per worker
    for i in range(ctx.scale(14, 400)):
        r = random.Random(rnd.getrandbits(48))
        yield ('hist', gen_history(r), r.random() < 0.4)
        if i % 100 == 5 and not os.environ.get("NOSWEEP"):
            yield ('sweep', rnd.getrandbits(32))
            yield ('templates', rnd.getrandbits(32))


def key_of(entry, src, names, budget, k):
    return repr((entry, src, type(names).__name__, norm_value(names) if entry == 'eval' else None, budget if entry == 'eval' else None, k if entry == 'list_names_partial' else None))


NATURAL = {'ok': 'eval', 'runtime': 'eval', 'ops-limit': 'eval', 'host-raise': 'eval', 'names-text': 'list_names'}


def run_sweep(case, ctx):
    """every text of the corpus, twice, in a rotated/shuffled order on ONE long-lived parser of this worker process, each outcome compared with the
    outcome of the same call in a fresh process (computed once per text for the whole run): state kept at module or interpreter level by ANY
    earlier call of this process - the histories before this case included - shows as a difference"""
    r = random.Random(case[1])
    items = [(kind, src) for kind, v in KINDS.items() for src in v]
    cut = (ctx.shard * 37 + case[1]) % len(items)
    first = items[cut:] + items[:cut]
    second = list(items)
    r.shuffle(second)
    if ctx.sweepP is None:
        ctx.sweepP = (ctx.SqParser(), ctx.SqParser(parse_cache={}))
    for n, (kind, src) in enumerate(first + second):
        entry = NATURAL.get(kind, 'parse')
        P = ctx.sweepP[n % 2]
        # first pass: a fresh names mapping per call; second pass: eval(text) with the names argument omitted (the call's variables die with the call)
        omitted = entry == 'eval' and n >= len(first)
        names = fresh_names(0) if (entry == 'eval' and not omitted) else None
        ctx.cur = {'first': None, 'foreign': 0}
        out = do_call(P, entry, src, names, None, 0)
        ctx.evaluations += 1
        if out == ('recursion',):
            continue
        fresh = fresh_process_outcome(ctx, entry, src, -1 if omitted else 0, None, 0, spend='always')
        if fresh is None:
            continue
        ctx.count('outcomes_compared_with_a_fresh_process')
        ctx.count('sweep_calls_compared_with_a_fresh_process')
        ctx.nontriv('sweep|%s|%s|%d' % (src, entry, n >= len(first)))
        if fresh != out and fresh != ('recursion',):
            ctx.violation('a call gives a different outcome in a fresh process (state kept outside the parser object)', ('sweep', case[1]),
                          detail={'call': [entry, src, 'names omitted' if omitted else 'fresh0', None, 0], 'position_in_sweep': n, 'with_history': repr(out)[:300], 'fresh_process': repr(fresh)[:300],
                                  'earlier_in_this_sweep': [x[1][:30] for x in (first + second)[max(0, n - 5):n]]})
            return


def run_templates(case, ctx):
    """one text evaluated under every names template in a row on the long-lived parsers (the caching one reuses ONE tree for all of them): bindings that
    shadow builtins, a read-only mapping, persistent-looking values; each outcome against a history-free parser"""
    r = random.Random(case[1])
    texts = [src for kind in ('ok', 'runtime') for src in KINDS[kind]]
    if ctx.quick:
        texts = r.sample(texts, 24)
    if ctx.sweepP is None:
        ctx.sweepP = (ctx.SqParser(), ctx.SqParser(parse_cache={}))
    for n, src in enumerate(texts):
        order = [0, 1, 2, 3, 4, 5]
        r.shuffle(order)
        P = ctx.sweepP[(n + case[1]) % 2]
        for t in order:
            names = fresh_names(t)
            key = key_of('eval', src, names, None, 0)
            ctx.cur = {'first': None, 'foreign': 0}
            out = do_call(P, 'eval', src, names, None, 0)
            ctx.evaluations += 1
            if out == ('recursion',):
                continue
            if key not in ctx.memo:
                ctx.cur = {'first': None, 'foreign': 0}
                ctx.memo[key] = do_call(copy.deepcopy(ctx.pristine), 'eval', src, fresh_names(t), None, 0)
                ctx.count('history_free_members_on_deep_copies_of_an_unused_parser')
            ref = ctx.memo[key]
            ctx.count('outcomes_compared_with_history_free_call')
            ctx.count('template_rotation_calls_compared')
            ctx.nontriv('templates|%s|%d|%s' % (src, t, P is ctx.sweepP[1]))
            if out != ref and ref != ('recursion',):
                ctx.violation('a call with the same arguments gives a different outcome on a fresh parser', ('templates', case[1]),
                              detail={'call': ['eval', src, 'fresh%d' % t, None, 0], 'parser': 'cached' if P is ctx.sweepP[1] else 'plain',
                                      'templates_before_on_this_text': order[:order.index(t)], 'with_history': repr(out)[:300], 'history_free': repr(ref)[:300]})
                return


def case_deadline(case):
    return case[2] + 400 if case[0] == 'cgf' else CASE_DEADLINE


def run_text(case, ctx):
    """one text through parse, eval and list_names on a long-lived parser (its history: every text this process has judged before, most of them broken) and on a
    deep copy of a parser that has never served a call: same outcomes"""
    text = case[1]
    if ctx.textP is None:
        ctx.textP = ctx.SqParser()
    F = copy.deepcopy(ctx.pristine)
    for entry in ('parse', 'eval', 'list_names'):
        ctx.cur = {'first': None, 'foreign': 0}
        random.seed(7)              # a generated text may call rand / shuffle: both sides draw the same numbers
        out = do_call(ctx.textP, entry, text, fresh_names(0) if entry == 'eval' else None, 200 if entry == 'eval' else None, 0)
        ctx.cur = {'first': None, 'foreign': 0}
        random.seed(7)
        ref = do_call(F, entry, text, fresh_names(0) if entry == 'eval' else None, 200 if entry == 'eval' else None, 0)
        ctx.count('given_text_calls_compared_with_a_history_free_parser')
        if ('recursion',) in (out, ref):
            return
        if out != ref:
            ctx.violation('a call with the same arguments gives a different outcome on a fresh parser', case,
                          detail={'call': [entry, text[:300]], 'with_history': repr(out)[:300], 'history_free': repr(ref)[:300]})
            return


def run_cgf(case, ctx):
    """coverage-guided texts: an atheris/libFuzzer process runs THIS check's run_text over the instrumented sandbox copy - its long-lived parser accumulates the
    history of every generated text; texts on which a difference was recorded there are judged again here (where the history is another one)"""
    from lib import cgdriver
    _, seed, seconds = case
    seeds = [t for k in ('ok', 'lexical', 'syntax-mid', 'premature-end', 'unbalanced-open', 'unbalanced-close', 'runtime', 'names-text') for t in KINDS[k][:6]]
    seeds += ['rand() + 1', 'shuffle([1, 2, 3, 4])', 'x = rand(1, 100)\nx']
    out = cgdriver.run(ctx, 'check:C11:text', seed, seconds, seeds)
    if out is None:
        return
    st, fired, _slow = out
    for text in fired:
        ctx.count('texts_on_which_the_oracle_fired_in_the_fuzzing_process')
        before = len(ctx.violations)
        run_text(('text', text), ctx)
        if len(ctx.violations) == before:
            ctx.violation('coverage-guided fuzzing: a history-dependent outcome was recorded in the fuzzing process (not reproduced here, where the history differs)', ('text', text), detail={'text': text[:300]})


def run_case(case, ctx):
    if case[0] == 'cgf':
        return run_cgf(case, ctx)
    if case[0] == 'text':
        return run_text(case, ctx)
    if case[0] == 'sweep':
        return run_sweep(case, ctx)
    if case[0] == 'templates':
        return run_templates(case, ctx)
    _, calls, cached = case
    ctx.M1.lambdas.clear()         # lambdas of earlier histories are of no interest (and keep their names mappings alive)
    P = ctx.SqParser(parse_cache={}) if cached else ctx.SqParser()
    M7 = monitors.TokenMonitor(P)
    persist = {'persistA': fresh_names(0), 'persistB': fresh_names(3)}
    prev_kind = 'start'
    trail = []
    for (kind, entry, src, names_mode, budget, k) in calls:
        names = persist[names_mode] if names_mode.startswith('persist') else None if names_mode == 'none' else fresh_names(int(names_mode[-1]))
        if entry != 'eval':
            names = None
        no_names = entry == 'eval' and names is None          # eval(text) with the names argument omitted: the call's variables live and die with the call
        key = key_of(entry, src, names, budget, k)
        pre_names = None
        read_only = False
        if entry == 'eval' and not no_names:
            pre_names = {kk: (vv if callable(vv) else copy.deepcopy(vv)) for kk, vv in names.items()}
            read_only = type(names).__name__ == 'mappingproxy'
        stale = entry == 'eval' and not no_names and any(callable(v) and id(v) in ctx.M1.lambdas for v in names.values())
        # ---- the call under history
        M7.begin()
        ctx.cur = {'first': None, 'foreign': 0}
        out = do_call(P, entry, src, names, budget, k)
        foreign = ctx.cur['foreign']
        ctx.evaluations += 1
        ctx.count('history_calls')
        ctx.cov('predecessor->successor', '%s -> %s' % (prev_kind, entry.replace('_partial', '')))
        trail.append((entry, src[:40], out[0]))
        detail = {'history_tail': trail[-6:], 'call': [entry, src, names_mode, budget, k], 'parser': 'cached' if cached else 'plain'}
        if out == ('recursion',):
            prev_kind = kind
            continue
        # ---- M7: the lexer started this call in its pristine state
        if M7.first is not None:
            ctx.count('first_pulls_checked')
            lexpos, lineno, paren = M7.first
            if (lexpos, lineno, paren) != (0, 1, 0):
                ctx.violation('a call started with lexer counters (lexpos, lineno, paren_count) = %r instead of (0, 1, 0)' % ((lexpos, lineno, paren),), case, detail=detail)
                return
        # other scalar lexer attributes (flags a feature may have added) must be back at their pristine values before the next call starts;
        # they are compared right after this call for every attribute that the baseline knows and that is not a position counter
        now = lexer_scalars(P.lex)
        for a, v in now.items():
            if a in ('lexpos', 'lineno', 'paren_count'):
                continue
            if a in ctx.baseline and ctx.baseline[a] != v:
                ctx.violation('lexer attribute %r is %r after a call (%r on a fresh parser)' % (a, v, ctx.baseline[a]), case, detail=detail)
                return
        # ---- environment snapshots
        c = decimal.getcontext()
        if (c.prec, c.rounding, c.Emax, c.Emin) != ctx.decimal_context:
            ctx.violation('a call left the decimal context changed', case, detail=dict(detail, context=repr(c)[:160]))
            c.prec, c.rounding, c.Emax, c.Emin = ctx.decimal_context
            return
        if [(kk, id(vv)) for kk, vv in ctx.functions.FUNCTIONS.items()] != ctx.table_snapshot:
            ctx.violation('a call modified the builtin table', case, detail=detail)
            return
        # ---- the history-free member of this call's group
        if stale or key not in ctx.memo:
            # (a closure in names is opaque in the key, so such calls are never served from the memo)
            if ctx.rnd.random() < 0.05:
                F = ctx.SqParser()
                ctx.fresh_built += 1
            else:
                F = copy.deepcopy(ctx.pristine)      # a deep copy of a parser that has never served a call
                ctx.count('history_free_members_on_deep_copies_of_an_unused_parser')
            fn = None
            if entry == 'eval' and not no_names:
                fn = {kk: (vv if callable(vv) else copy.deepcopy(vv)) for kk, vv in pre_names.items()}
                if read_only:
                    import types
                    fn = types.MappingProxyType(fn)
            ctx.cur = {'first': None, 'foreign': 0}
            ref = do_call(F, entry, src, fn, budget, k)
            if not stale:
                ctx.memo[key] = ref
                if len(ctx.memo) > 4000:
                    ctx.memo.clear()
        else:
            ref = ctx.memo[key]
        ctx.count('outcomes_compared_with_history_free_call')
        ctx.nontriv('%s|%s' % (hash(repr(trail[:-1])), key))
        # a sample of the calls is also replayed in a FRESH PROCESS: state kept at module level (memos, caches, contexts) is shared by every
        # parser of this process, the freshly constructed one included
        if (names is None or names_mode.startswith('fresh')) and out != ('recursion',):
            fresh = fresh_process_outcome(ctx, entry, src, int(names_mode[-1]) if (names is not None and names_mode.startswith('fresh')) else (-1 if no_names else 0), budget, k,
                                          spend=kind in ('ok', 'runtime', 'names-text') or ctx.rnd.random() < 0.3)
            if fresh is not None:
                ctx.count('outcomes_compared_with_a_fresh_process')
                if fresh != out and fresh != ('recursion',):
                    ctx.violation('a call gives a different outcome in a fresh process (state kept outside the parser object)', case,
                                  detail=dict(detail, with_history=repr(out)[:300], fresh_process=repr(fresh)[:300]))
                    return
        if out != ref and ref != ('recursion',):
            finding = 'stale-lambda-state' if (stale and foreign > 0) else None
            ctx.violation('a call with the same arguments gives a different outcome on a fresh parser', case, finding=finding,
                          detail=dict(detail, with_history=repr(out)[:300], history_free=repr(ref)[:300]))
            if finding is None:
                return
        prev_kind = 'half-consumed' if entry == 'list_names_partial' else kind
    if ctx.counters['history_calls'] % 200 < len(calls):
        ctx.sample({'history': [(c[1], c[2][:40], c[3], c[4]) for c in calls[:6]], 'parser': 'cached' if cached else 'plain'})


def finish(ctx):
    if getattr(ctx, 'zygote', None) is not None:
        try:
            ctx.zygote.stdin.close()
            ctx.zygote.wait(timeout=10)
        except Exception:
            ctx.zygote.kill()
    ctx.counters['fresh_parsers_constructed'] = ctx.fresh_built


def conclusive(m):
    c = m['counters']
    if c.get('outcomes_compared_with_history_free_call', 0) < 3000:
        return 'only %d outcomes compared' % c.get('outcomes_compared_with_history_free_call', 0)
    if c.get('first_pulls_checked', 0) < 2000:
        return 'only %d first token pulls checked' % c.get('first_pulls_checked', 0)
    if len(m['cover'].get('predecessor->successor', ())) < 30:
        return 'predecessor -> successor pairs covered: %d' % len(m['cover'].get('predecessor->successor', ()))
    return None
