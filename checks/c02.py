"""C02 - sandbox confinement: programs only touch plain data and perform no I/O.

Monitors: M1 (every node result goes through the M8 type census; builtin results are the exits of
Call nodes - the function table is NOT wrapped here, wrappers would change identity-sensitive
behaviour of its entries), M6 (audit hook, active only inside parse/eval/list_names windows), and a
census of the final result and of `names` after the call.
"""
import copy
import random
from decimal import Decimal

from lib import gram, heap, monitors

ID = 'C02'
TECHNIQUE = 'runtime monitor: type census of every node result (M1+M8) and audit-hook event filter (sys.addaudithook) under a hostile builtin x argument workload; plus coverage-guided programs (atheris) judged by the same census and audit filter'
RULE = "(1) every name in the function table x arities 0-4 x argument expressions from a hostile pool (plain scalars, attribute-/format-like strings, dotted %a.b% names bound and unbound, nested and aliased containers, tuples, slices, program lambdas, the builtin objects themselves, ast_names helpers), through eval in call, method and pipe spelling, plus index/slice/assignment of the result; (1b) every ordered pair of table entries called one after the other with identical arguments; (1c) the parameter names of the builtins' implementations spelled as keyword-like arguments; (2) random derivations of the grammar whose identifiers are builtin names, plain-data host names and ast_names helpers, with one-token mutations; compiled lambdas and parsed trees are supplied through ast_names. Host binds plain data only. Every node result, the final result and everything reachable from names afterwards is censused; audit events are filtered inside every eval. Non-trivial = at least one node result was censused; distinct = distinct source text."
RULE += ' (1d) every table entry with every 2- and 3-tuple (sampled 4-tuples) over a focused pool {text, pattern, list, dict, two program lambdas, number, string}; results are also indexed with fractional numbers.'
RULE += ' One ast_names evaluation in four also carries a helper whose own evaluation fails (names must still hold plain data afterwards).'
RULE += " Coverage-guided programs: one atheris/libFuzzer process per worker (6 s quick, 150 s thorough) runs this check's own judgement (census of every node result, audit events) on generated program texts over the instrumented sandbox copy; programs on which a violation was recorded there are judged again by the worker."
ASSUMPTIONS = ['plain data = None, bool, int, float, Decimal, str and list/tuple/dict/slice of these; allowed callables = the objects of the pristine function '
               'table (by identity) and callables produced by lambda nodes',
               'audit events are the observable for file/process/network/import/dynamic-code activity (CPython raises them for open, os.*, socket.*, import, exec, compile, ...)',
               'the harness performs no I/O inside a monitored window']
FINDINGS = {
    'dict-class-exposed': 'the table exposes the dict class itself; subscripting it (dict[1], __getitem__(dict, k)) yields a types.GenericAlias that can be stored and called',
}
CASE_DEADLINE = 20

DATA = {
    'n': None, 't': True, 'i': 7, 'z': 0, 'neg': -3, 'big': 10 ** 20, 'fl': 1.5, 'dec': Decimal('2.50'),
    's': 'abc', 'e': '', 'fmt': '{0.__class__}', 'dun': '__class__', 'pct': '%s %(x)s', 'attr': 'a.__globals__', 'bs': '\\1\\g<0>', 'rx': '(a)(b)?',
    'code': '__import__("os").system("id")', 'path': '/etc/passwd',
    '%user%': {'name': 'bob', 'tags': ['a']}, '%v%': 'abc',
    'l': [1, 2, 3], 'ls': ['b', 'a', 'c'], 'le': [], 'nest': [[1, [2]], {'k': [3]}], 'tup': (1, 'a'), 'lt': [(1, 'a'), (2, 'b')],
    'd': {'a': 1, 'b': 2}, 'de': {}, 'dn': {'k': {'j': [1]}}, 'sl': slice(0, 2), 'mix': [None, True, 'x', 1.5, Decimal('1'), (), {}],
}
ALIASED = ['al']
ARG_EXPR = list(DATA) + ['af', 'ag', 'ax', 'al', '(v => v)', '((a, b) => a)', '(v => [v, v])', '(() => 1)' if False else '(v => str)', 'str', 'len', 'dict', 'list', 'max', 'map', 'pretty',
                         '__getitem__', 'sorted', 'rand', '"__class__"', '"{0.__class__.__mro__}"', '0', '1', '-1', '2.5', '[]', '{}', '[dict]', '{"k": len}',
                         'l[0:2]', 'None', 'True', '%user%', '%user.name%', '%user.name.upper%', '%user.__class__%', '%user.tags.0%', '%v.upper%', '%v.__class__.__mro__%',
                         '%s.format%', '%l.0%', '%d.a%', '%l.__len__%', '%fmt.format%']


FOCUS = ['s', 'rx', 'l', 'd', '(v => v)', '((a, b) => a)', '1', '"b"']


def host_names():
    n = copy.deepcopy(DATA)
    x = [1]
    n['al'] = [x, x, {'k': x}]
    return n


def setup(ctx):
    from smartquery import SqParser
    from smartquery import functions
    ctx.P = SqParser()
    ctx.table = dict(functions.FUNCTIONS)
    ctx.fn_names = sorted(ctx.table)
    ctx.M1 = M1 = monitors.NodeMonitor()
    ctx.M6 = monitors.AuditMonitor()
    ctx.ok_ids = set(id(v) for v in ctx.table.values())
    ctx.bad = []

    def on_exit(node, state, value):
        ctx.count('node_results_censused')
        t = type(value)
        if t in heap.PLAIN_SCALARS:
            return
        ok = ctx.ok_ids
        if id(value) in M1.lambdas:
            return
        if M1.lambdas:
            ok = ok | set(M1.lambdas)
        off = heap.census(value, ok)
        if off and len(ctx.bad) < 5:
            ctx.bad.append((type(node).__name__, getattr(node, 'name', getattr(node, 'op', '')), off))
    M1.on_exit = on_exit


def cases(ctx):
    rnd = ctx.rnd
    if ctx.shard == 0:
        for src in ['dict[1]', '__getitem__(dict, "k")', 'x = dict[str]\nx', 'dict[::0]', '[dict][0][1]', 'f = dict[1]\nf()', '%user.name.upper%', '%w% = 1\ng = %w.__class__.__base__%\ng',
                    '%v.__class__%', '%l.0%', '%user.name%', 'x = %v.upper%\nx()']:
            yield ('src', src)
    # (1) builtin x arity x pool
    per = ctx.scale(60, 600)
    n = 0
    for src in ['af', '[af]', 'g = af\ng', '{"cb": af}', 't and af', 'af(1)', 'ag', 'ax', '[ax, af, ag]', 'map([1], af)', 'str(af)', 'x = [af, ag]\nx[0]', 'af | str', 'sorted([2, 1], af)', 'ag()']:
        if n % ctx.nshards == ctx.shard:
            yield ('astn', src)
        n += 1
    for name in ctx.fn_names:
        for k in range(0, 5):
            for j in range(per if k else 1):
                if n % ctx.nshards == ctx.shard:
                    yield ('call', name, k, rnd.getrandbits(40))
                n += 1
    # (1d) every table entry with every short tuple over a small focused pool (subject, pattern, list, dict, program lambdas, scalar): the argument
    #      shapes an entry of a given family expects (text + pattern + callback ...) all occur, for entries added to the table later as well
    import itertools
    for name in ctx.fn_names:
        for k in (2, 3, 4):
            tuples = list(itertools.product(FOCUS, repeat=k))
            if k == 4 or (ctx.quick and k == 3):
                tuples = rnd.sample(tuples, ctx.scale(24 if k == 4 else 64, 400))
            for t in tuples:
                if n % ctx.nshards == ctx.shard:
                    yield ('callx', name, t)
                n += 1
    # (1c) parameter names of the implementations (introspection), spelled the way a keyword argument would be: on the shipped grammar these are syntax
    #      errors; a tree that accepts them must still only hand out plain data
    import inspect
    for name in ctx.fn_names:
        try:
            params = [p.name for p in inspect.signature(ctx.table[name]).parameters.values()]
        except (TypeError, ValueError):
            params = []
        for p_ in params + ['raw', 'key', 'default', 'flags', 'reverse', 'obj', 'self']:
            if n % ctx.nshards == ctx.shard:
                for a in (['s, rx', 'l', 'd, "a"', 's', 'ls, ", "'] if not ctx.quick else ['s, rx', rnd.choice(['l', 'd, "a"', 's', 'ls, ", "'])]):
                    for v in ('True', '1', 'None', 'str'):
                        yield ('astn', '%s(%s, %s=%s)' % (name, a, p_, v))
                    yield ('astn', '(%s).%s(%s=True)' % (a.split(',')[0], name, p_))
                    yield ('astn', '%s | %s(rx, %s=True)' % (a.split(',')[0], name, p_))
            n += 1
    # (1b) every ordered pair of table entries called one after the other with the SAME arguments (state shared between builtins: caches, memos)
    SAME = ['(s, rx)', '("abcabc", "b(c)")', '("aXbX", "X")', '(s, "b")', '(l)', '(d)', '(ls, ", ")', '(nest)', '("a,b", ",")', '(lt)']
    names_ = ctx.fn_names
    for i, f in enumerate(names_):
        for j, g in enumerate(names_):
            if n % ctx.nshards == ctx.shard:
                for a in (rnd.sample(SAME, 2) if ctx.quick else SAME):
                    yield ('pair', f, g, a)
            n += 1
    yield ('cgf', rnd.getrandbits(30), ctx.scale(6, 150))          # coverage-guided programs, one fuzzing process per worker
    # (2)/(3) grammar-derived compositions over builtin and data names
    for _ in range(ctx.scale(6000, 100000)):
        yield ('gram', rnd.getrandbits(40))


def call_source(ctx, name, k, seed):
    r = random.Random(seed)
    args = [r.choice(ARG_EXPR) for _ in range(k)]
    form = r.randrange(6)
    if form == 0 or not args:
        call = '%s(%s)' % (name, ', '.join(args))
    elif form == 1:
        call = '%s.%s(%s)' % (args[0], name, ', '.join(args[1:]))
    elif form == 2 and len(args) > 1:
        call = '%s | %s(%s)' % (args[0], name, ', '.join(args[1:]))
    elif form == 2:
        call = '%s | %s' % (args[0], name)
    elif form == 3:
        call = 'r = %s(%s)\nq = [r, {"k": r}]\nq[0]' % (name, ', '.join(args))
    elif form == 4:
        call = '%s(%s)[%s]' % (name, ', '.join(args), r.choice(['0', '"k"', '0:1', '::-1', 's', 'dun', '-1', '1.5', '0.25', '-0.5', '2.0']))
    else:
        call = 'map([%s], v => %s(v%s))' % (args[0], name, ''.join(', ' + a for a in args[1:]))
    return call


def gram_source(ctx, seed):
    r = random.Random(seed)
    types = gram.gen('code', r, r.randint(2, 6))[:70]
    for _ in range(r.choice([0, 0, 1, 2])):
        types = gram.mutate(types, r, gram.ALPHA)
    pools = {'NAME': ctx.fn_names + list(DATA) * 2 + ['x', 'y', 'af', 'ag', 'ax', '%user.name%', '%v.upper%', '%user.__class__%', '%l.0%', '%x.real%', '%s.__doc__%'], 'STRING': ['"__class__"', '"{0.__class__}"', '"a"', '"k"', "'%s'"],
             'NUMBER': ['0', '1', '2', '10']}
    return gram.render(types, r, pools=pools)[1]


def case_deadline(case):
    return case[2] + 400 if case[0] == 'cgf' else CASE_DEADLINE


def run_cgf(case, ctx):
    """coverage-guided programs: an atheris/libFuzzer process runs THIS check's run_case on ('src', text) cases over the instrumented sandbox copy (census of
    every node result, audit events); programs on which a violation was recorded there are judged again here"""
    from lib import cgdriver
    _, seed, seconds = case
    r = random.Random(seed)
    seeds = ['dict[1]', 's | upper | len', 'map(l, v => [v, str])', '%user.name%', 'x = items(d)\nx[0]', 'sorted(ls, v => v)[0:1]', 'match_all(s, rx)', 'get(dn, "k") | keys | reversed', 'enumerate(lt)[0][1]',
             'f = v => v\n[f, f(len)]', 'fmt + dun', 'nest[1]["k"] | list', 'tup | reversed', '{"a": sl}', 'mix | map(v => str(v))']
    for name in r.sample(ctx.fn_names, 12):
        seeds.append(call_source(ctx, name, r.randint(1, 3), r.getrandbits(30)))
    out = cgdriver.run(ctx, 'check:C02:src', seed, seconds, seeds)
    if out is None:
        return
    st, fired, _slow = out
    ctx.count('node_results_censused_in_the_fuzzing_process', (st.get('counters') or {}).get('node_results_censused', 0))
    for text in fired:
        ctx.count('programs_on_which_the_oracle_fired_in_the_fuzzing_process')
        before = len(ctx.violations)
        run_case(('src', text), ctx)
        if len(ctx.violations) == before:
            ctx.violation('coverage-guided fuzzing: a violation was recorded in the fuzzing process but not when the program was judged again here', ('src', text), detail={'src': text[:300]})


def run_case(case, ctx):
    kind = case[0]
    if kind == 'cgf':
        return run_cgf(case, ctx)
    if kind == 'src':
        src = case[1]
    elif kind == 'call':
        src = call_source(ctx, case[1], case[2], case[3])
        ctx.cov('builtins_called', case[1])
    elif kind == 'callx':
        src = '%s(%s)' % (case[1], ', '.join(case[2]))
        ctx.cov('builtins_called', case[1])
        ctx.count('focused_argument_tuples')
    elif kind == 'pair':
        # two evals in a row in this process; the second one is the monitored one (the first only has to have happened)
        try:
            ctx.P.eval('%s%s' % (case[1], case[3]), host_names(), None, 3000)
        except Exception:
            pass
        src = '%s%s' % (case[2], case[3])
        ctx.count('same_argument_pairs')
    elif kind == 'astn':
        src = case[1]
    else:
        src = gram_source(ctx, case[1])
    names = host_names()
    ctx.bad = []
    ctx.M1.lambdas.clear()
    before = ctx.counters['node_results_censused']
    random.seed(case[-1] if isinstance(case[-1], int) else 0)
    if kind == 'pair':
        random.seed(1)
    M6 = ctx.M6
    result, exc = None, None
    ast_names = None
    if kind in ('gram', 'astn') or (kind == 'call' and case[3] % 5 == 0):
        # the rarely used ast_names argument: compiled lambdas and parsed trees supplied by the host; a program may mention them bare, store them, pass them on
        from smartquery.ast_ops import LambdaOp, NameOp
        try:
            ast_names = {'af': LambdaOp(args=[NameOp('p0')], expr=ctx.P.parse('[p0, len]')), 'ag': LambdaOp(args=[], expr=ctx.P.parse('1')), 'ax': ctx.P.parse('[1, "a"]')}
            if hash(src) % 4 == 0:
                # a helper whose own evaluation fails (error path of the ast_names binding loop): the call fails, and names still holds plain data only
                ast_names[random.choice(['zbad', 'af2'])] = ctx.P.parse(random.choice(['[1][5]', 'nope_undefined + 1', '{"a": 1}["b"]', 'pop([])']))
                ctx.count('evals_with_a_failing_ast_names_helper')
        except Exception:
            ast_names = None
    M6.begin()
    try:
        result = ctx.P.eval(src, names, ast_names, 3000)
    except Exception as e:
        exc = e
    forbidden = M6.end()
    ctx.count('evals')
    if exc is None:
        ctx.count('evals_returning')
    else:
        ctx.cov('exception_classes', type(exc).__name__)
    ok = ctx.ok_ids | set(ctx.M1.lambdas)
    bad = list(ctx.bad)
    off = heap.census(result, ok)
    if off:
        bad.append(('final result', '', off))
    off = heap.census(names, ok, limit=3)
    if off:
        bad.append(('names after the call', '', off))
    if ctx.counters['node_results_censused'] > before:
        ctx.nontriv(src)
    if bad:
        finding = None
        types = set(t for _, _, o in bad for _, t in o)
        if types <= {'types.GenericAlias'} and 'dict' in src:
            finding = 'dict-class-exposed'
        ctx.violation('a program obtained a value that is not plain data: %s' % sorted(types)[:3], case, finding=finding,
                      detail={'src': src, 'where': [(a, b, o) for a, b, o in bad][:3]})
    if forbidden:
        ctx.violation('audit event during eval: %s' % forbidden[0][0], case, detail={'src': src, 'events': forbidden[:5]})
    if ctx.counters['evals'] % 700 == 1:
        ctx.sample({'src': src, 'outcome': type(exc).__name__ if exc else repr(result)[:80]})


def finish(ctx):
    for ev, n in ctx.M6.events.items():
        ctx.counters['audit_event:' + ev] += n
    ctx.counters['audit_events_total'] += ctx.M6.total


def conclusive(m):
    c = m['counters']
    if c.get('node_results_censused', 0) < 20000:
        return 'only %d node results censused' % c.get('node_results_censused', 0)
    if c.get('evals_returning', 0) < 1000:
        return 'only %d evals returned normally' % c.get('evals_returning', 0)
    if len(m['cover'].get('builtins_called', ())) < 40:
        return 'fewer than 40 table entries exercised'
    if c.get('audit_events_total', 0) == 0:
        return 'the audit hook never fired (monitor not attached?)'
    return None
