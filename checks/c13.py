"""C13 - non-mutating builtins never modify their arguments.

Monitors: M3 wrappers on every entry of the function table that is not a declared mutator: deep
fingerprint (structure, order, element identities) of every argument at entry and at exit - also when
the builtin raises; M3 counters on the mutators and host callbacks (a window in which one of those ran
is excluded and counted); and an end-to-end fingerprint of every host object before/after each eval
in which no mutator ran (catches changes made outside the builtin's own window, e.g. by the call node).
"""
import collections
import copy
import random
import re
from decimal import Decimal

from lib import heap

ID = 'C13'
TECHNIQUE = "runtime monitor: deep fingerprints of every argument at entry/exit of every non-mutator + end-to-end fingerprints of host objects; coverage-guided programs (atheris), the repository's tests"
RULE = ('every non-mutator in the function table x typed argument templates (lists, string lists, nested lists, lists of dicts, dicts, nested dicts, tuples from items/enumerate, '
        'strings, empty containers, aliased containers, a host defaultdict, a 10050-element host list reachable through a dict) with 1- and 2-argument key functions, builtins as key '
        'functions, reverse flags, separators; called through eval in call/method/pipe spelling, directly as FUNCTIONS[name](*args), and in pipelines of 2-4 stages; plus '
        'ill-typed argument tuples (an exception must not have mutated anything either). Non-trivial = a non-mutator window whose arguments contained a container and whose '
        'fingerprints were compared; distinct = distinct (source | direct call description).')
RULE += ' Host containers include proper subclasses of list and dict and a defaultdict (whose own index read inserts: not judged).'
RULE += " One more workload: the repository's own test-suite, run in a worker process against the sandbox copy with this check's monitors installed (the tests' assertions are not the oracle, the monitors are)."
RULE += " Coverage-guided programs over the host containers: one atheris/libFuzzer process per worker (5 s quick, 100 s thorough) runs this check's own judgement; programs on which a violation was recorded there are judged again by the worker."
RULE += " Host containers are also presented as the value of a nested call that returns a reference to an existing object (get, method/pipe get, max/min of a list of lists, a selecting reduce). Three in ten call/pipe programs run against the function table as the repository built it (monitor wrappers taken out for that call: code that recognises its own builtins by identity behaves differently under wrappers) and are judged end to end only."
ASSUMPTIONS = ['mutators = push, pop, insert, remove, __setitem__, __setitem_with_op__, __delitem__ (index assignment, compound index assignment, del); everything else in the table is a non-mutator',
               'a window inside which a mutator or a host callback ran is excluded from the judgement (counted); the workload keeps those below 20 % of windows',
               'fingerprint = container identity + ordered element fingerprints (dict: ordered key/value pairs); scalars by type and repr']
FINDINGS = {}
CASE_DEADLINE = 20
MUTATORS = {'push', 'pop', 'insert', 'remove', '__setitem__', '__setitem_with_op__', '__delitem__'}
D = Decimal


class HostList(list):
    """a host-supplied proper subclass of list"""


class HostDict(dict):
    """a host-supplied proper subclass of dict (no __missing__)"""


def host(with_big=True):
    x = [D(1)]
    big = list(range(10050 if with_big else 12))
    return {
        'l': [D(3), D(1), D(2)], 'ls': ['b', 'a', 'c'], 'll': [[D(1), D(2)], [D(3)], [D(4), D(5)]], 'ld': [{'k': D(2)}, {'k': D(1)}], 'd': {'b': D(2), 'a': D(1)},
        'dn': {'x': [D(1), D(2)], 'y': {'z': [D(3)]}}, 's': 'hello world', 't': (D(1), 'a'), 'lt': [(D(2), 'b'), (D(1), 'a')], 'e': [], 'de': {},
        'al': [x, x, {'k': x}], 'dd': collections.defaultdict(list, {'a': [D(1)]}), 'dbig': {'log': big, 'n': D(1)}, 'n': D(2), 'z': D(0), 'sep': ', ', 'tr': True, 'no': None,
        'lstr': ['1', '22', '333'], 'mixed': [D(1), 'a', None, [D(2)]],
        # containers that overlap with the ones above (same keys, equal elements): builtins that combine two arguments meet common structure
        'dn2': {'x': [D(7)], 'y': {'z': [D(8)], 'w': D(9)}, 'q': D(1)}, 'd2': {'a': D(5), 'c': D(6)}, 'll2': [[D(1), D(2)], [D(9)]],
        'dl': {'u': [D(3), D(1), D(2)], 'v': ['b', 'c', 'a'], 'w': {'b': D(2), 'a': D(1)}},
        'hl': HostList([D(3), D(1), D(2), D(5)]), 'hls': HostList(['b', 'a']), 'hd': HostDict({'b': D(2), 'a': D(1)}), 'nhl': [HostList([D(2), D(1)]), HostList([D(9), D(8), D(7)])],
    }


C_LIST = ['hl', 'hls', 'nhl', 'nhl[1]', 'l', 'ls', 'll', 'ld', 'lt', 'e', 'al', 'mixed', 'lstr', 'dbig["log"]', 'dn["x"]', 'll[0]', 'items(d)', 'keys(dn)', '[l, l]', 'll2']
C_DICT = ['hd', 'd', 'dn', 'de', 'dd', 'dbig', 'dn["y"]', 'ld[0]', '{"q": l}', 'dn2', 'd2', 'dn2["y"]', 'dn', 'dn2']
C_STR = ['s', '"a,b,c"', 'sep', 'ls[0]', '""']
# the same host containers presented as the value of a nested call (get, method/pipe get, max/min of a list of lists, a selecting reduce): the
# callee receives a reference to an existing object although its argument node is a call
C_LIST += ['get(dl, "u")', 'dl.get("u")', '(dl | get("v"))', 'get(dl, "v", [])', 'max(ll)', 'min(nhl)', 'reduce(ll, (a, b) => b)', 'reduce(nhl, (a, b) => a)', 'get(dd, "a")', 'get(dn, "x")', 'max(nhl)']
C_DICT += ['get(dl, "w")', 'dl.get("w")', 'get(dn, "y")', 'reduce(ld, (a, b) => a)']
C_ANY = C_LIST + C_DICT + C_STR + ['n', 'z', 'tr', 'no', 't', '1.5']
FN1 = ['(v => v)', '(v => str(v))', '(v => len(str(v)))', 'str', 'len', '(v => [v])', '(v => v == v)', '(v => 0 - len(str(v)))']
FN2 = ['((a, b) => a)', '((a, b) => b)', '((k, v) => k)', '((a, b) => [a, b])', '((k, v) => str(v))', 'max']
KEYS = ['"a"', '"b"', '"x"', '"missing"', '0', '1', '-1', '"log"', 'n', '1.5', '5', '"k"']
SIG = {
    'len': [[C_ANY]], 'int': [[['n', '"12"', 'z', '1.5']]], 'float': [[['n', '"1.5"']]], 'str': [[C_ANY]], 'dict': [[C_DICT], [['items(d)', 'lt']], []], 'list': [[C_ANY], [C_ANY, C_ANY], []],
    'startswith': [[C_STR, C_STR]], 'endswith': [[C_STR, C_STR]], 'lower': [[C_STR]], 'upper': [[C_STR]], 'strip': [[C_STR], [C_STR, C_STR]], 'replace': [[C_STR, C_STR, C_STR], [C_STR, C_STR, C_STR, ['n']]],
    'match': [[C_STR, ['"l+"', '"(a)(b)?"', 'sep']], [C_STR, ['"L"'], ['"i"']]], 'match_groups': [[C_STR, ['"(l+)(o)"', '"x"']]], 'match_all': [[C_STR, ['"l"', '"(l)(o)?"', '""']]],
    'pretty': [[C_ANY], [C_ANY, C_STR]], 'keys': [[C_DICT]], 'values': [[C_DICT]], 'items': [[C_DICT]], 'sum': [[C_LIST + ['n']]], 'get': [[C_DICT, KEYS], [C_DICT, KEYS, C_ANY]],
    '__getitem__': [[C_LIST + C_DICT + C_STR, KEYS]], 'map': [[C_LIST + C_STR, FN1], [C_DICT, FN2]], 'filter': [[C_LIST, FN1]], 'reduce': [[C_LIST + C_DICT, FN2]],
    'join': [[C_LIST + C_DICT], [C_LIST, C_STR]], 'split': [[C_STR], [C_STR, C_STR], [C_STR, C_STR, ['n']]], 'round': [[['n', '1.55']], [['1.555'], ['n', '1']]],
    'floor': [[['1.5', 'n']]], 'ceil': [[['1.5']]], 'abs': [[['n', '0 - n']]], 'min': [[C_LIST], [C_ANY, C_ANY]], 'max': [[C_LIST], [C_ANY, C_ANY], [C_LIST, C_LIST]],
    'rand': [[], [C_LIST], [['1'], ['5']]], 'sorted': [[C_LIST + C_DICT + C_STR], [C_LIST + C_STR, FN1 + ['no']], [C_LIST, FN1 + ['no'], ['tr', 'no', 'z']], [C_DICT, FN2 + ['no']], [C_DICT, FN2, ['tr']]],
    'reversed': [[C_LIST + C_STR + C_DICT]], 'enumerate': [[C_LIST + C_STR + C_DICT]], 'shuffle': [[C_LIST]], 'index_of': [[C_LIST + C_STR, C_ANY]],
}


class Watch:
    def __init__(self, ctx):
        self.ctx = ctx
        self.depth = 0
        self.taint = []          # one flag per open non-mutator window
        self.case = None
        self.mutator_calls = 0
        self.self_mutating = set()

    def nonmut(self, name, orig):
        W = self

        def wrapper(*args, **kw):
            ctx = W.ctx
            if name == '__getitem__' and args and hasattr(type(args[0]), '__missing__'):
                # an index read IS a subscript: a host mapping whose own __missing__ inserts on read (defaultdict) changes itself,
                # by the host's code, not the builtin's; such windows are not judged (the object is there to catch builtins
                # that subscript where a non-inserting lookup is documented, e.g. get)
                ctx.count('windows_not_judged(index read of a host mapping with __missing__)')
                W.self_mutating.add(id(args[0]))
                return orig(*args, **kw)
            before = [heap.fingerprint(a) for a in args]
            has_container = any(f[0] in ('list', 'tuple', 'dict') for f in before)
            W.taint.append(False)
            try:
                return orig(*args, **kw)
            finally:
                tainted = W.taint.pop()
                if tainted and W.taint:
                    W.taint[-1] = True
                ctx.count('nonmutator_windows')
                ctx.cov('nonmutators_called', name)
                if tainted:
                    ctx.count('windows_excluded(mutator or host callback inside)')
                elif has_container:
                    ctx.count('windows_judged')
                    W.judged += 1
                    after = [heap.fingerprint(a) for a in args]
                    if after != before:
                        k = [i for i in range(len(args)) if after[i] != before[i]][0]
                        ctx.violation('%s changed its argument #%d' % (name, k), W.case,
                                      detail={'builtin': name, 'before': str(strip_ids(before[k]))[:300], 'after': str(strip_ids(after[k]))[:300]})
        wrapper.__name__ = 'verif_' + name
        return wrapper

    def mut(self, name, orig):
        W = self

        def wrapper(*args, **kw):
            W.mutator_calls += 1
            for i in range(len(W.taint)):
                W.taint[i] = True
            return orig(*args, **kw)
        return wrapper

    judged = 0


def strip_ids(f):
    if isinstance(f, tuple):
        if f and f[0] in ('list', 'tuple', 'dict') and len(f) == 3:
            return (f[0], strip_ids(f[2]))
        return tuple(strip_ids(x) for x in f)
    return f


def setup(ctx):
    from smartquery import SqParser
    from smartquery import functions
    ctx.P = SqParser()
    ctx.W = W = Watch(ctx)
    F = functions.FUNCTIONS
    ctx.raw = dict(F)
    ctx.nonmut = sorted(n for n in F if n not in MUTATORS)
    for n in list(F):
        F[n] = W.mut(n, F[n]) if n in MUTATORS else W.nonmut(n, F[n])
    ctx.F = F
    ctx.wrapped = dict(F)


def cases(ctx):
    rnd = ctx.rnd
    n = 0
    if ctx.shard == ctx.nshards - 1:
        yield ('repo-tests', 0, 0)
    yield ('cgf', rnd.getrandbits(30), ctx.scale(5, 100))          # coverage-guided programs, one fuzzing process per worker
    per = ctx.scale(60, 600)
    for name in ctx.nonmut:
        sigs = SIG.get(name)
        for j in range(per):
            if n % ctx.nshards == ctx.shard:
                yield ('call', name, rnd.getrandbits(40), 'typed' if (sigs is not None and j % 4) else 'wild')
            n += 1
    # entries the pinned table does not have: every single, every ordered pair and sampled triples over a focused list of (overlapping) host containers
    from lib import gram
    import itertools
    focus = ['dn', 'dn2', 'd', 'd2', 'll', 'll2', 'l', 'hl', 'hd', 'dd', 'ld', 'al']
    for name in [x for x in ctx.nonmut if x not in gram.PINNED_TABLE]:
        tuples = [(a,) for a in focus] + list(itertools.product(focus, repeat=2)) + rnd.sample(list(itertools.product(focus, repeat=3)), 80)
        for t in tuples:
            if n % ctx.nshards == ctx.shard:
                yield ('callx', '%s(%s)' % (name, ', '.join(t)), rnd.getrandbits(40), 'focused')
            n += 1
    for _ in range(ctx.scale(900, 12000)):
        yield ('pipe', rnd.getrandbits(40))
    for _ in range(ctx.scale(400, 6000)):
        yield ('direct', rnd.getrandbits(40))


# argument shapes for table entries this check has no signature for (entries added to the table later): containers in every position, alone and in pairs
GENERIC_SIG = [[C_DICT, C_DICT], [C_LIST, C_LIST], [C_DICT, C_DICT, C_DICT], [C_LIST, FN1], [C_DICT, FN2], [C_DICT, KEYS], [C_DICT, KEYS, C_ANY], [C_LIST, KEYS], [C_ANY], [C_LIST, C_ANY, C_ANY]]


def call_source(ctx, name, r, mode):
    if mode == 'typed' and name in SIG and SIG[name] is not None:
        sig = r.choice(SIG[name])
        args = [r.choice(pool) for pool in sig]
    elif name not in SIG and r.random() < 0.75:
        args = [r.choice(pool) for pool in r.choice(GENERIC_SIG)]
    else:
        args = [r.choice(C_ANY + FN1 + FN2) for _ in range(r.choice([1, 1, 2, 2, 3]))]
    form = r.randrange(3)
    if form == 0 or not args:
        return '%s(%s)' % (name, ', '.join(args))
    if form == 1:
        return '(%s).%s(%s)' % (args[0], name, ', '.join(args[1:]))
    return ('(%s) | %s(%s)' % (args[0], name, ', '.join(args[1:]))) if len(args) > 1 else '(%s) | %s' % (args[0], name)


STAGES = ['sorted', 'reversed', 'enumerate', 'shuffle', 'keys', 'values', 'items', 'str', 'len', 'sum', 'join', 'pretty', 'min', 'max', 'list',
          'map(v => v)', 'map(v => [v])', 'filter(v => v)', 'sorted(v => str(v))', 'sorted(None, True)', 'reduce((a, b) => a)', 'join(", ")', 'index_of(1)',
          'map((k, v) => v)', 'sorted((k, v) => str(v))', 'get("a")', 'get("x", [])', 'split(" ")', 'upper', 'match_all("l")', 'rand']


def case_deadline(case):
    return case[2] + 400 if case[0] == 'cgf' else CASE_DEADLINE


def run_cgf(case, ctx):
    """coverage-guided programs over the host containers: an atheris/libFuzzer process runs THIS check's run_case (every non-mutator window judged, the host objects
    fingerprinted around evaluations that call no mutator) over the instrumented sandbox copy; programs on which a violation was recorded are judged again here"""
    from lib import cgdriver
    _, seed, seconds = case
    r = random.Random(seed)
    seeds = ['sorted(ll)', 'reversed(l) | sum', 'keys(dn) | sorted', 'map(ll, v => sorted(v))', 'get(dd, "zz", 1)', 'sum(ll2)', 'shuffle(hl)', 'items(d2) | sorted((k, v) => v)', 'join(ls, sep)', 'index_of(l, 1)',
             'max(ll[0], ll2[0])', 'pretty(dn)', 'enumerate(al)', 'filter(mixed, v => v)', 'reduce(ll, (a, b) => a)', 'str(dbig["n"])', 'split(s, " ") | reversed', 'min(l)', 'values(dn2)', 'list(hl, hd)']
    for name in r.sample(ctx.nonmut, 10):
        seeds.append(call_source(ctx, name, r, 'typed'))
    out = cgdriver.run(ctx, 'check:C13:callx', seed, seconds, seeds)
    if out is None:
        return
    st, fired, _slow = out
    for text in fired:
        ctx.count('programs_on_which_the_oracle_fired_in_the_fuzzing_process')
        before = len(ctx.violations)
        run_case(('callx', text, 0, 'fuzz'), ctx)
        if len(ctx.violations) == before:
            ctx.violation('coverage-guided fuzzing: a violation was recorded in the fuzzing process but not when the program was judged again here', ('callx', text, 0, 'fuzz'), detail={'src': text[:300]})


def run_case(case, ctx):
    if case[0] == 'cgf':
        return run_cgf(case, ctx)
    if case[0] == 'repo-tests':
        # the repository's own tests as a workload: every non-mutator window they open is judged by the wrappers in the function table
        from lib import repotests
        W = ctx.W
        W.case, W.taint, W.self_mutating = case, [], set()
        j0 = W.judged
        repotests.run(ctx)
        ctx.count('windows_judged_during_the_repository_tests', W.judged - j0)
        W.taint = []
        return
    seed = case[-2] if case[0] in ('call', 'callx') else case[1]
    r = random.Random(seed)
    W = ctx.W
    W.case = case
    W.taint = []
    W.self_mutating = set()
    names = host(with_big=(case[-2] if case[0] in ('call', 'callx') else case[1]) % 5 == 0)
    before_all = {k: heap.fingerprint(v) for k, v in names.items()}
    m0 = W.mutator_calls
    j0 = W.judged
    random.seed(case[1] if isinstance(case[1], int) else case[2])
    if case[0] == 'direct':
        name = r.choice(ctx.nonmut)
        f = ctx.F[name]
        vals = list(names.values())
        pyf = [lambda v: v, lambda a, b=None: a, str, len, lambda *a: 0]
        args = [r.choice(vals + pyf) for _ in range(r.choice([1, 1, 2, 2, 3]))]
        src = 'FUNCTIONS[%r](*%d args)' % (name, len(args))
        try:
            f(*args)
        except Exception as e:
            ctx.cov('exception_classes', type(e).__name__)
    else:
        if case[0] == 'callx':
            src = case[1]
        elif case[0] == 'call':
            src = call_source(ctx, case[1], r, case[3])
        else:
            src = r.choice(C_LIST + C_DICT + C_STR)
            for _ in range(r.randint(2, 4)):
                src = '%s | %s' % (src, r.choice(STAGES))
        # three in ten call/pipe programs run against the function table AS THE REPOSITORY BUILT IT (wrappers taken out for the call): code that
        # recognises its own builtins by identity (`f is _sorted`) behaves differently under wrappers; those runs are judged end to end only
        unwrapped = case[0] in ('call', 'pipe') and seed % 10 < 3 and not any(m in src for m in MUTATORS)
        if unwrapped:
            ctx.F.clear()
            ctx.F.update(ctx.raw)
            ctx.count('programs_run_against_the_unwrapped_function_table(end-to-end judgement only)')
        try:
            ctx.P.eval(src, names, None, 200000)
            ctx.count('evals_returning')
        except Exception as e:
            ctx.cov('exception_classes', type(e).__name__)
        finally:
            if unwrapped:
                ctx.F.clear()
                ctx.F.update(ctx.wrapped)
                # an index read of the host defaultdict inserts by the host's own code (see the wrapper of __getitem__): not judged here either
                W.self_mutating.add(id(names['dd']))
    ctx.count('cases_run')
    statement_forms = case[0] == 'callx' and case[-1] == 'fuzz' and re.search(r'(?<![=!<>])=(?![=>])|\bdel\b', src) is not None
    if statement_forms:
        # a generated program with an assignment, a compound assignment or del changes names by a STATEMENT (not a builtin's doing): only the
        # per-call windows are judged for it
        ctx.count('end_to_end_checks_skipped(program text contains an assignment or del)')
    if W.mutator_calls == m0 and not statement_forms:
        ctx.count('end_to_end_checks')
        skip = {k for k, v in names.items() if id(v) in W.self_mutating}
        after_all = {k: heap.fingerprint(v) for k, v in names.items() if k in before_all and k not in skip}
        before_cmp = {k: v for k, v in before_all.items() if k not in skip}
        if after_all != before_cmp:
            k = [k for k in before_cmp if after_all.get(k) != before_cmp[k]][0]
            ctx.violation('an evaluation that called no mutator changed the host object %r' % k, case,
                          detail={'src': src, 'before': str(strip_ids(before_all[k]))[:300], 'after': str(strip_ids(after_all.get(k)))[:300]})
    if W.judged > j0:
        ctx.nontriv(src if case[0] != 'direct' else repr(case))
    if ctx.counters['cases_run'] % 400 == 1:
        ctx.sample({'src': src, 'windows_judged': W.judged - j0})


def conclusive(m):
    c = m['counters']
    if c.get('windows_judged', 0) < 5000:
        return 'only %d windows judged' % c.get('windows_judged', 0)
    if c.get('windows_excluded(mutator or host callback inside)', 0) > 0.2 * c.get('nonmutator_windows', 1):
        return 'too many excluded windows'
    if c.get('evals_returning', 0) < 1000:
        return 'too few evaluations returned normally'
    return None
