"""C17 - the parse cache is transparent.

Monitors: two parsers driven in lock step by the same history with equal (deep-copied) arguments - A without a
cache, B with a recording cache of kind K; every call's outcome (result, exception class and message, names
afterwards) is compared.  M5 recording cache: a structural fingerprint (over vars() of every node, hidden
fields included) of each stored tree is taken when it is stored and re-checked after every call; at the end
every entry is compared with a fresh parse of its key; results are checked for objects shared with a cached tree.
"""
import collections
import collections.abc
import copy
import random
import re
from decimal import Decimal

from lib import heap, treeconv

ID = 'C17'
TECHNIQUE = 'lock-step differential monitor: cached vs uncached parser on identical histories + fingerprints of every cached tree over time; coverage-guided texts (atheris) under the same lock-step judgement'
RULE = ('histories of 6-30 parse/eval calls over a corpus of sources (literals incl. empty and constant lists/dicts, arithmetic on literals, lambdas, assignments, builtin calls) '
        'repeated verbatim, as near-duplicates wrapped in blanks / tabs / newlines / CR LF / form feed / vertical tab / NBSP / lone CR on either side, and interleaved with failing '
        'sources; budgets ample, default and tight (around the need of the program); names fresh or persistent and shadowing builtins in some calls; after every eval the host '
        'mutates the returned lists/dicts (also nested) and the names mapping; cache kinds: dict, LRU(1), LRU(3), always-evicting, evict-on-read, pre-warmed by another parser. '
        'Non-trivial = a call whose outcome was compared between the cached and the uncached parser; distinct = distinct (cache kind, history prefix hash, call).')
RULE += ' A share of the eval calls also passes ast_names trees parsed from identical texts by each parser itself.'
RULE += " Coverage-guided texts: one atheris/libFuzzer process per worker (5 s quick, 100 s thorough) runs this check's judgement of a single text (parsed once and evaluated three times on a long-lived parser without a cache and one with a dict cache, the host mutating results in between) over the instrumented sandbox copy; texts on which a difference was recorded there are judged again by the worker."
ASSUMPTIONS = ['tree fingerprint = class name + vars() of every node, recursively (lists, tuples, nodes; leaf values by type and repr, container leaves by identity and contents)',
               'exception messages are compared after removing memory addresses']
FINDINGS = {}
CASE_DEADLINE = 60
D = Decimal

CORPUS = ['1 + 1', '{"ok": True, "errors": []}', '[[], {}]', 'x if c else []', 'get(d, "k", [])', '[1, 2, 3]', '{"a": 1, "b": [1, 2]}', 'days * (60 * 60 * 24)', '[1 + 1, 2 + 2, 3 + 3, 4 + 4, 5 + 5, 6 + 6]',
          'f = v => {"k": 0}\n[f(1), f(2)]', 'map([1, 2], v => [v])', 'lower("AbC")', 'max(1, 2)', 'len(x)', 'y = [1, 2]\npush(y, 3)\ny', 'x', '"s"', '', '# c', 'a = 1\nb = a + 1\n[a, b]',
          'upper(x) if c else lower(x)', 'sorted([3, 1, 2], v => 0 - v)', '{}', '[]', '{"a": {"b": {}}}', '1 + 2 * 3 - 4 / 5', 'n = 5\nn *= 2\nn', 'd["k"]', 'get(d, "zz", {"dflt": []})',
          '(1 + 2) * (3 + 4) * (5 + 6)', 'str(1.50) + "x"', '[i0, i0 + 1]', 'q = {"z": []}\nq']
FAILING = ['1 +', 'f(', '1 $ 2', 'nope', '1 / 0', '[1, 2', 'x = = 1', 'for', ')', 'd["missing"]']
PADS = ['', ' ', '\n', '\t', '\r\n', '  \n ', '\x0c', '\x0b', '\xa0', '\r', '\x1c', '\x85', ' \n\t ', ';', '\n\n']


class LRU(collections.abc.MutableMapping):
    def __init__(self, cap):
        self.cap, self.d = cap, collections.OrderedDict()

    def __getitem__(self, k):
        v = self.d[k]
        self.d.move_to_end(k)
        return v

    def __setitem__(self, k, v):
        self.d[k] = v
        self.d.move_to_end(k)
        while len(self.d) > self.cap:
            self.d.popitem(last=False)

    def __delitem__(self, k):
        del self.d[k]

    def __iter__(self):
        return iter(self.d)

    def __len__(self):
        return len(self.d)

    def __contains__(self, k):
        return k in self.d


class Evicting(collections.abc.MutableMapping):
    """stores nothing"""

    def __getitem__(self, k):
        raise KeyError(k)

    def __setitem__(self, k, v):
        pass

    def __delitem__(self, k):
        raise KeyError(k)

    def __iter__(self):
        return iter(())

    def __len__(self):
        return 0

    def __contains__(self, k):
        return False


class EvictOnRead(dict):
    """hands an entry out once, then forgets it"""

    def __getitem__(self, k):
        return dict.pop(self, k)


def make_cache(kind, warm):
    if kind == 'dict':
        return {}
    if kind == 'lru1':
        return LRU(1)
    if kind == 'lru3':
        return LRU(3)
    if kind == 'evicting':
        return Evicting()
    if kind == 'evict-on-read':
        return EvictOnRead()
    if kind == 'prewarmed':
        return dict(warm)
    raise ValueError(kind)


def tree_fp(o, depth=0):
    """structural fingerprint over vars() of every node (hidden, non-init, non-compared fields included)"""
    if depth > 200:
        return '...'
    if hasattr(o, '__dict__') and type(o).__module__.startswith('smartquery'):
        return (type(o).__name__,) + tuple((k, tree_fp(v, depth + 1)) for k, v in sorted(vars(o).items()))
    if isinstance(o, (list, tuple)) and o and any(hasattr(x, '__dict__') or isinstance(x, (list, tuple)) for x in o):
        return (type(o).__name__,) + tuple(tree_fp(x, depth + 1) for x in o)
    if isinstance(o, (list, tuple, dict)):
        return ('leaf-container', heap.fingerprint(o))
    if callable(o):
        return ('callable', getattr(o, '__qualname__', '?'))
    return (type(o).__name__, repr(o))


def tree_container_ids(o, out, depth=0):
    if depth > 200:
        return
    if hasattr(o, '__dict__') and type(o).__module__.startswith('smartquery'):
        for v in vars(o).values():
            tree_container_ids(v, out, depth + 1)
    elif isinstance(o, (list, tuple)):
        if isinstance(o, list):
            out.add(id(o))
        for x in o:
            tree_container_ids(x, out, depth + 1)
    elif isinstance(o, dict):
        out.add(id(o))
        for x in o.values():
            tree_container_ids(x, out, depth + 1)


ADDR = re.compile(r'0x[0-9a-f]+')


def norm_value(v):
    if callable(v):
        return '<callable>'
    if isinstance(v, Decimal):
        return 'D:' + str(v)
    if isinstance(v, (list, tuple)):
        return [type(v).__name__] + [norm_value(x) for x in v]
    if isinstance(v, dict):
        return {ADDR.sub('0x', str(k)): norm_value(x) for k, x in v.items()}
    if isinstance(v, str):
        return 'str:%r' % ADDR.sub('0x', v)          # (the text of a callable that was concatenated into a string carries an address)
    if isinstance(v, (int, float, bool)) or v is None:
        return '%s:%r' % (type(v).__name__, v)
    return 'obj:' + type(v).__name__


def call(P, entry, src, names, budget):
    try:
        if entry == 'parse':
            return ('ok', str(treeconv.norm(treeconv.conv(P.parse(src)))), None), None
        v = P.eval(src, names, None, budget) if budget is not None else P.eval(src, names)
        return ('ok', norm_value(v), norm_value(names)), v
    except RecursionError:
        return ('recursion',), None
    except Exception as e:
        return ('exc', '%s: %s' % (type(e).__name__, ADDR.sub('0x', str(e))[:200]), norm_value(names) if names is not None else None), None


def setup(ctx):
    from smartquery import SqParser
    ctx.SqParser = SqParser
    ctx.plain = SqParser()
    ctx.textA = ctx.textB = None
    # entries of the function table that the pinned table does not have are called by corpus texts too (several argument shapes, repeated on cached trees)
    from smartquery import functions as _functions
    from lib import gram
    new = gram.new_table_names()
    for name in new:
        for args in ('1, 2, 3', '[1, 2], 1', '"a", "b", "c", "d"', 'x, "AbC", 1, "dflt"', 'd, "k"', '[3, 1, 2], v => v', 'i0, i0, "same", 0'):
            t = '%s(%s)' % (name, args)
            if t not in CORPUS:
                CORPUS.extend([t, t])
    ctx.count('corpus_texts_calling_table_entries_unknown_to_the_pinned_tree', len(new) * 7)
    ctx.warm = {}
    for s in CORPUS:
        try:
            ctx.warm[s.rstrip()] = ctx.plain.parse(s.rstrip())
        except Exception:
            pass


def base_names(shadow):
    n = {'x': 'AbC', 'c': True, 'd': {'k': [D(1)]}, 'days': D(3), 'i0': D(7)}
    if shadow == 1:
        n.update({'lower': str.upper, 'max': D(10), 'len': (lambda v: 99)})
    elif shadow == 2:
        n.update({'c': False, 'x': [D(1), D(2)], 'get': (lambda *a: 'host-get')})
    return n


def mutate_result(v, r_choice):
    """the host scribbles into what an evaluation returned"""
    if isinstance(v, list):
        v.append('host-mutation')
        for x in v:
            if isinstance(x, (list, dict)):
                mutate_result(x, r_choice)
    elif isinstance(v, dict):
        v['host-mutation'] = True
        for x in list(v.values()):
            if isinstance(x, (list, dict)):
                mutate_result(x, r_choice)


def cases(ctx):
    rnd = ctx.rnd
    kinds = ['dict', 'lru1', 'lru3', 'evicting', 'evict-on-read', 'prewarmed']
    if ctx.shard == 0:
        yield ('hist', 'dict', [('eval', '1 + 1', 0, None, 0), ('eval', '\x0c1 + 1', 0, None, 0)])
        yield ('hist', 'dict', [('eval', '{"ok": True, "errors": []}', 0, None, 0)] * 3)
        yield ('hist', 'dict', [('eval', '[1 + 1, 2 + 2, 3 + 3, 4 + 4, 5 + 5, 6 + 6]', 0, 20, 0)] * 3)
        yield ('hist', 'dict', [('eval', 'lower("AbC")', 0, None, 0), ('eval', 'lower("AbC")', 0, None, 1)])
        yield ('hist', 'prewarmed', [('eval', 'days * (60 * 60 * 24)', 0, 1000, 0), ('eval', 'days * (60 * 60 * 24)', 0, 8, 0)])
    yield ('cgf', rnd.getrandbits(30), ctx.scale(5, 100))          # coverage-guided texts, one fuzzing process per worker
    for _ in range(ctx.scale(40, 1200)):
        r = random.Random(rnd.getrandbits(48))
        subset = r.sample(CORPUS, r.randint(2, 6)) + r.sample(FAILING, r.randint(0, 2))
        calls = []
        for _ in range(r.randint(6, 30)):
            src = r.choice(subset)
            if r.random() < 0.35:
                src = r.choice(PADS) + src + r.choice(PADS)
            entry = 'eval' if r.random() < 0.75 else 'parse'
            budget = r.choice([None, None, 1000, 1000, 'T', 'T+1', 'T-1', 'T-2', 'T-3'])
            calls.append((entry, src, r.choice([0, 0, 'persist']), budget, r.choice([0, 0, 0, 1, 2])))
        yield ('hist', r.choice(kinds), calls)


def need_of(ctx, src, names):
    """operations the program needs on the uncached parser (measured with an ample budget on a throw-away copy of names)"""
    from smartquery.exceptions import OpsExecutionLimitExceededError
    lo, hi = 1, 400
    try:
        ctx.plain.eval(src, copy.deepcopy(names), None, hi)
    except OpsExecutionLimitExceededError:
        return None
    except Exception:
        pass
    # smallest budget that does not raise the limit error
    while lo < hi:
        mid = (lo + hi) // 2
        try:
            ctx.plain.eval(src, copy.deepcopy(names), None, mid)
            ok = True
        except OpsExecutionLimitExceededError:
            ok = False
        except Exception:
            ok = True
        if ok:
            hi = mid
        else:
            lo = mid + 1
    return lo


def case_deadline(case):
    return case[2] + 400 if case[0] == 'cgf' else CASE_DEADLINE


def run_text(case, ctx):
    """one text, on a long-lived parser without a cache and a long-lived one with a dict cache: parsed once, evaluated three times (the host mutating what it
    got back in between) - same outcomes, same names, the cached tree unchanged, no returned object part of the cached tree"""
    text = case[1]
    if ctx.textB is None or len(ctx.textB.parse_cache) > 400:
        ctx.textA, ctx.textB = ctx.SqParser(), ctx.SqParser(parse_cache={})
    A, B = ctx.textA, ctx.textB
    fp0 = None
    for step, entry in enumerate(('parse', 'eval', 'eval', 'eval')):
        na, nb = base_names(0), base_names(0)
        random.seed(step)           # a generated text may call rand / shuffle: both sides draw the same numbers
        oa, va = call(A, entry, text, na if entry == 'eval' else None, 200 if entry == 'eval' else None)
        random.seed(step)
        ob, vb = call(B, entry, text, nb if entry == 'eval' else None, 200 if entry == 'eval' else None)
        ctx.count('calls_compared')
        ctx.count('given_texts_calls_compared')
        if ('recursion',) in (oa, ob):
            return
        detail = {'cache': 'dict (long-lived)', 'call': [entry, text[:300], step]}
        if oa != ob:
            ctx.violation('the parser with a cache behaves differently from the parser without', case, detail=dict(detail, without_cache=repr(oa)[:300], with_cache=repr(ob)[:300]))
            return
        tree = B.parse_cache.get(text.rstrip() if entry == 'eval' else text)
        if tree is not None:
            fp = tree_fp(tree)
            key = text.rstrip() if entry == 'eval' else text
            if fp0 is not None and fp0[0] == key and fp0[1] is tree and fp0[2] != fp:
                ctx.violation('a cached tree changed after it was stored', case, detail=dict(detail, key=key[:80]))
                return
            fp0 = (key, tree, fp)
            if vb is not None:
                ids = set()
                tree_container_ids(tree, ids)
                if ids & heap.mutable_ids(vb):
                    ctx.violation('an evaluation returned an object that is part of a cached tree', case, detail=detail)
                    return
        if entry == 'eval':
            for v in (va, vb):
                mutate_result(v, None)


def run_cgf(case, ctx):
    """coverage-guided texts: an atheris/libFuzzer process runs THIS check's run_text over the instrumented sandbox copy; texts on which a difference was recorded
    there are judged again here"""
    from lib import cgdriver
    _, seed, seconds = case
    seeds = list(CORPUS[:30]) + ['f = v => [v, []]\nf(1)', 'get(d, "zz", [])', '[[], {}] if c else {"a": []}', 'x = [1]\nx', 'map([1, 2], v => {"k": [v]})', 'd["k"]', 'sorted([3, 1], v => [v])', '(1 + 2) * rand()', 'shuffle([1, 2, 3, 4])', 'rand([[], [1]])']
    out = cgdriver.run(ctx, 'check:C17:text', seed, seconds, seeds)
    if out is None:
        return
    st, fired, _slow = out
    for text in fired:
        ctx.count('texts_on_which_the_oracle_fired_in_the_fuzzing_process')
        before = len(ctx.violations)
        run_text(('text', text), ctx)
        if len(ctx.violations) == before:
            ctx.violation('coverage-guided fuzzing: a difference was recorded in the fuzzing process but not when the text was judged again here', ('text', text), detail={'text': text[:300]})


def run_case(case, ctx):
    if case[0] == 'cgf':
        return run_cgf(case, ctx)
    if case[0] == 'text':
        return run_text(case, ctx)
    _, kind, calls = case
    A = ctx.SqParser()
    cache = make_cache(kind, ctx.warm)
    B = ctx.SqParser(parse_cache=cache)
    stored = {}      # key -> (tree object, fingerprint when first seen)
    pa, pb = base_names(0), base_names(0)
    trail = []
    for (entry, src, names_mode, budget, shadow) in calls:
        if names_mode == 'persist':
            na, nb = pa, pb
            for k, v in base_names(shadow).items():
                if k not in ('d',):
                    na[k] = v
                    nb[k] = v
        else:
            na, nb = base_names(shadow), base_names(shadow)
        if isinstance(budget, str):
            t = need_of(ctx, src, na) if entry == 'eval' else None
            budget = None if t is None else max(1, t + {'T': 0, 'T+1': 1, 'T-1': -1, 'T-2': -2, 'T-3': -3}[budget])
        if entry == 'eval' and hash((src, len(trail))) % 6 == 0:
            # the rarely used ast_names argument: trees the host parsed itself (with the same parser), several of them from identical text
            t1, t2 = [('[]', '[]'), ('{}', '{}'), ('[1, 2]', '[1, 2]'), ('v => [v]', 'v => [v]'), ('[]', '[] ')][hash(src) % 5]
            prog = ['push(seen, 1)\nqueue', 'seen["k"] = 1\nqueue', 'push(seen, 3)\n[seen, queue]', '[seen(1), queue(2)]', 'push(seen, 1)\nqueue'][hash(src) % 5]
            outs = []
            for X, n in ((A, na), (B, nb)):
                try:
                    an = {'seen': X.parse(t1), 'queue': X.parse(t2)}
                    v = X.eval(prog, n, an, budget if budget is not None else 100)
                    outs.append(('ok', norm_value(v), norm_value(n)))
                except RecursionError:
                    outs.append(('recursion',))
                except Exception as e:
                    outs.append(('exc', '%s: %s' % (type(e).__name__, ADDR.sub('0x', str(e))[:200]), norm_value(n)))
            ctx.count('ast_names_calls_compared')
            if outs[0] != outs[1] and ('recursion',) not in outs:
                ctx.violation('eval with ast_names behaves differently on the parser with a cache', case,
                              detail={'cache': kind, 'program': prog, 'ast_names_texts': [t1, t2], 'budget': budget, 'without_cache': repr(outs[0])[:300], 'with_cache': repr(outs[1])[:300]})
                return
        oa, va = call(A, entry, src, na if entry == 'eval' else None, budget)
        ob, vb = call(B, entry, src, nb if entry == 'eval' else None, budget)
        ctx.evaluations += 1
        ctx.count('calls_compared')
        ctx.cov('cache_kinds', kind)
        trail.append((entry, src[:50], budget, oa[0]))
        detail = {'cache': kind, 'history_tail': trail[-6:], 'call': [entry, src, budget, shadow]}
        ctx.nontriv('%s|%s|%s' % (kind, hash(repr(trail[:-1])), (entry, src, budget, shadow)))
        if oa != ob and ('recursion',) not in (oa, ob):
            ctx.violation('the parser with a cache behaves differently from the parser without', case, detail=dict(detail, without_cache=repr(oa)[:300], with_cache=repr(ob)[:300]))
            return
        # recording-cache invariants
        try:
            entries = list(cache.items()) if not isinstance(cache, Evicting) else []
        except Exception:
            entries = []
        for k, tree in entries:
            fp = tree_fp(tree)
            if k not in stored or stored[k][0] is not tree:
                stored[k] = (tree, fp)
                ctx.count('cache_entries_fingerprinted')
            elif stored[k][1] != fp:
                ctx.violation('a cached tree changed after it was stored', case, detail=dict(detail, key=k[:80]))
                return
        if vb is not None and entries:
            ids = set()
            for k, tree in entries:
                tree_container_ids(tree, ids)
            shared = ids & heap.mutable_ids(vb)
            if shared:
                ctx.violation('an evaluation returned an object that is part of a cached tree', case, detail=detail)
                return
        # the host mutates what it got back, and its names
        if entry == 'eval':
            for v in (va, vb):
                mutate_result(v, None)
            for n in (na, nb):
                if isinstance(n.get('d'), dict) and isinstance(n['d'].get('k'), list):
                    n['d']['k'].append(D(len(n['d']['k'])))
    # every entry left in the cache is the parse of its key
    try:
        entries = list(cache.items()) if not isinstance(cache, Evicting) else []
    except Exception:
        entries = []
    for k, tree in entries:
        ctx.count('final_cache_entries_checked')
        try:
            want = str(treeconv.norm(treeconv.conv(ctx.plain.parse(k))))
        except Exception as e:
            ctx.violation('the cache holds an entry for a text that does not parse', case, detail={'cache': kind, 'key': k[:80], 'error': str(e)[:100]})
            return
        if str(treeconv.norm(treeconv.conv(tree))) != want:
            ctx.violation('a cache entry is not the parse of its key', case, detail={'cache': kind, 'key': k[:80]})
            return
    if ctx.counters['calls_compared'] % 300 < len(calls):
        ctx.sample({'cache': kind, 'history': [(c[0], c[1][:40], c[3]) for c in calls[:6]]})


def conclusive(m):
    c = m['counters']
    if c.get('calls_compared', 0) < 5000:
        return 'only %d calls compared' % c.get('calls_compared', 0)
    if len(m['cover'].get('cache_kinds', ())) < 6:
        return 'cache kinds exercised: %s' % sorted(m['cover'].get('cache_kinds', ()))
    if c.get('cache_entries_fingerprinted', 0) < 500:
        return 'too few cache entries fingerprinted'
    return None
