"""C18 - list_names reports every name an evaluation can ask the host for.

Monitors: (a) list(list_names(text)) against the identifiers the generator put into the text (ground
truth by construction, not a second lexer); (b) for lexically invalid text, the names yielded before
the exception; (c) M5 recording mapping passed as `names` to eval: every key the evaluator asks the
host for must be in list_names(text) or in the fixed implicit set.
"""
import collections.abc
import os
import random

from lib import gram

ID = 'C18'
TECHNIQUE = 'runtime monitor: list_names vs identifiers known by construction; recording names mapping logs every key the evaluator asks the host for; coverage-guided texts (atheris) vs the reference lexer'
RULE = ('(a) random derivations of the grammar (and one-token mutants: list_names needs no parsable text) whose identifiers are drawn from plain names, '
        'Unicode names, names that look like keywords with a prefix/suffix (notx, in1, Truex, r, rr, ar), builtin names and %...% names containing blanks, '
        'dots, operators, quotes and #; rendered both with blanks and TIGHT (no blank wherever two tokens may legally abut: f("x"), a#c, "s"in x, 1a, x.y, '
        '%a%%b%), with comments and all three line ends; preceded by 0-2 arbitrary earlier calls on the same parser (failed parses at bracket depth, abandoned '
        'list_names generators, evals); (b) the same texts with an illegal character spliced into a token gap; (c) evaluation of parsable programs with a recording '
        'host mapping. Non-trivial = a text with >= 1 identifier compared / >= 1 host lookup recorded; distinct = distinct text.')
RULE += ' The identifier pool includes letters that Unicode normalisation would rewrite (OHM/KELVIN/ANGSTROM SIGN, fullwidth letters, ligatures).'
RULE += ' One case in three runs on a parser whose host parse cache can refuse a store (shared earlier-call kit); one in four evaluations uses a read-only recording Mapping that is not a dict.'
RULE += ' Coverage-guided texts: one atheris/libFuzzer process per worker (6 s quick, 150 s thorough) comparing list_names with the NAME tokens of the reference lexer (ParserError after exactly the names before an illegal character); inputs on which a difference was seen are judged again by the worker.'
ASSUMPTIONS = ['two tokens may abut exactly when no longer token could be formed across the junction (rule written down in may_abut(), from the lexical grammar)',
               'implicit names of syntax sugar: list, dict, __getitem__, __setitem__, __delitem__, __setitem_with_op__',
               'a partially consumed list_names generator is abandoned, never resumed after another call']
FINDINGS = {}
CASE_DEADLINE = 10
IMPLICIT = {'list', 'dict', '__getitem__', '__setitem__', '__delitem__', '__setitem_with_op__'}

NAME_POOL = ['a', 'b', 'x', 'f', 'g', 'имя', '_t', 'k2', 'notx', 'in1', 'Truex', 'Nonesuch', 'ifx', 'delta', 'andy', 'r', 'rr', 'ar', 'or_', 'x_1', 'ǅx', '变量',
             'len', 'map', 'str', 'push', 'sorted', '%user name%', '%a.b%', '%x+y%', '%"q"%', "%it's%", '%#tag%', '%a,b;c%', '% %', '%1%', '%if%', '%(%',
             'ª', 'µm', 'x²' if False else 'x2', 'ℌ', 'e3', 'E',
             # letters that Unicode normalisation rewrites (NFC: OHM SIGN, KELVIN SIGN, ANGSTROM SIGN; NFKC: fullwidth, ligature): the name asked for is the name as written
             '\u2126m', '\u212a', '\u212bx', '\uff58', '\ufb01t', '%\u2126 \u212b%']
STR_POOL = ['"s"', "'q'", 'r"\\d+"', '"a\\"b"', '""', "'x y'", '"%z%"', '"# no comment"', "'name'", '"a b c"', "r'x'", '"for x in y"', '"1 + nope"',
            # text that looks like a template (names inside a string literal are text, not identifiers)
            '"{tpl_a} and {0}"', '"%(tpl_b)s"', '"$tpl_c ${tpl_d}"', "'#{tpl_e} {{tpl_f}}'", '"{x} {nope_in_string}"']
NUM_POOL = ['1', '2.5', '0', '007', '10.50']
TWO_CHAR_OPS = {'==', '!=', '>=', '<=', '=>', '**', '+=', '-=', '*=', '/='}
WORD = ('NAME', 'NUMBER', 'AND', 'OR', 'IN', 'NOT', 'IF', 'ELSE', 'TRUE', 'FALSE', 'NONE', 'DEL', 'FOR', 'WHILE', 'BREAK', 'CONTINUE', 'DEF', 'RAISE', 'ELIF')


def may_abut(pt, ps, nt, ns):
    """may token (pt, ps) be followed by (nt, ns) without a blank and still be read as these two tokens?"""
    p_word = pt in WORD and not ps.startswith('%')
    n_word = nt in WORD and not ns.startswith('%')
    if p_word and n_word:
        # identifier characters would merge - except digits followed by a letter: 1a is NUMBER NAME
        return pt == 'NUMBER' and nt != 'NUMBER'
    if pt == 'NUMBER' and nt == 'DOT':
        return False                      # 1.5 would become one number
    if pt == 'DOT' and nt == 'NUMBER':
        return False                      # x.1 is fine lexically but keep the boundary unambiguous
    if nt == 'STRING' and p_word and ns[0] == 'r':
        return False                      # the r of a raw string would join the preceding word: elser"..."
    if nt == 'STRING' and p_word and ps.endswith('r'):
        return False                      # r"..." is a raw string; keep clear of every ...r"
    if pt == 'STRING' and nt == 'STRING':
        return False
    if not p_word and not n_word and pt not in ('STRING',) and nt not in ('STRING',) and not ps.startswith('%') and not ns.startswith('%'):
        if (ps[-1] + ns[0]) in TWO_CHAR_OPS:
            return False
        if ps[-1] == '*' and ns[0] == '*':
            return False
    if ps.endswith('%') and ns.startswith('%'):
        return True
    return True


def build_text(types, r, tight, comments):
    pools = {'NAME': NAME_POOL, 'STRING': STR_POOL, 'NUMBER': NUM_POOL}
    parts, truth, gaps = [], [], []
    prev = None
    depth = 0
    for t in types:
        if t in ('LPAREN', 'LBRACKET', 'LBRACE'):
            depth += 1
        elif t in ('RPAREN', 'RBRACKET', 'RBRACE'):
            depth -= 1
        (typ, val), s = gram.tok(t, r, newline=';' if (t == 'NEWLINE' and depth != 0) else None, pools=pools)
        sep = ''
        if prev is not None:
            if not tight or not may_abut(prev[0], prev[1], t, s) or r.random() < 0.15:
                sep = r.choice([' ', ' ', '  ', '\t'])
        if t == 'NEWLINE' and s != ';' and comments and r.random() < 0.4:
            sep += r.choice(['# x y z', '#a', '# %p% "q" nope(', '#'])
        gaps.append(sum(len(p) for p in parts) + len(sep))     # a safe splice point: start of this token
        parts.append(sep + s)
        if t == 'NAME':
            truth.append(s)
        prev = (t, s)
    text = ''.join(parts)
    if comments and r.random() < 0.3 and '\n' not in text[-1:]:
        text += r.choice([' # trailing names nope', '#z'])
    return text, truth, gaps


def setup(ctx):
    from smartquery import SqParser
    from smartquery import functions
    ctx.P = ctx.P_plain = SqParser()
    ctx.P_cache = SqParser(parse_cache=gram.ToggleCache())       # a parser whose host cache can refuse a store (see gram.earlier_call)
    ctx.fn_names = sorted(set(functions.FUNCTIONS) | set(gram.table_names()))
    new = [n for n in ctx.fn_names if n not in gram.PINNED_TABLE and n not in NAME_POOL]
    NAME_POOL.extend(new * 3)
    gram.use_table_names(ctx.fn_names)
    ctx.count('table_entries_unknown_to_the_pinned_tree_added_to_the_identifier_pool', len(new))


def cases(ctx):
    rnd = ctx.rnd
    if ctx.shard == 0:
        for text, truth in [('f("x")', ['f']), ('a#c', ['a']), ('"s"in x', ['x']), ('notx', ['notx']), ('in1', ['in1']), ('r"raw"', []), ('r', ['r']),
                            ('r "s"', ['r']), ('1a', ['a']), ('x.y(z)', ['x', 'y', 'z']), ('%a b%%c.d%', ['%a b%', '%c.d%']), ('x=>x+y', ['x', 'x', 'y']),
                            ('a[b]=c;d+=e\ndel f[g]', list('abcdefg')), ('not in if else and or True False None del', []), ('', []), ('# only names here', []),
                            ('(p, q) => p | g(q)', ['p', 'q', 'p', 'g', 'q']), ('%a%\n%b%', ['%a%', '%b%']), ('"a" \'b\' r"c"', []), ('x\r\ny', ['x', 'y'])]:
            yield ('direct', text, truth)
    if os.environ.get('C18_ONLY') == 'cgf':          # development aid (never set by a registered command)
        yield ('cgf', rnd.getrandbits(30), ctx.scale(6, 150))
        return
    yield ('cgf', rnd.getrandbits(30), ctx.scale(6, 150))          # coverage-guided texts, one fuzzing process per worker
    # entries of the function table that the pinned table does not have, called with plain data and with strings that look like templates / code
    if ctx.shard == 0:
        for name in [n for n in ctx.fn_names if n not in gram.PINNED_TABLE]:
            for args in ('"{x} {nope_in_string}"', '"%(tpl_b)s", 1', 'x, "{tpl_a} and {0}"', '"$tpl_c", a, b', '"1 + nope"', 'b, "never_mentioned"', '"never_mentioned"', 'k2, "r"'):
                yield ('evaltext', '%s(%s)' % (name, args))
                yield ('evaltext', 'a | %s(%s)' % (name, args))
    for _ in range(ctx.scale(12000, 150000)):
        yield ('gen', rnd.getrandbits(48))


def earlier_calls(ctx, r):
    """0-2 arbitrary earlier calls on the same parser"""
    P = ctx.P
    for _ in range(r.choice([0, 0, 1, 2])):
        k = r.randrange(6)
        try:
            if k == 0:
                P.parse(r.choice(['f(1, ', '[1, [2, ', '{"a": (', '1 + 2)', 'x = ]', '(((']))
            elif k == 1:
                g = P.list_names(r.choice(['a b c d', 'x + (y * [z', 'p $ q']))
                next(g, None)          # abandoned midway
            elif k == 2:
                P.eval(r.choice(['1 +', 'nope', 'x = [1,\n2', '1 / 0', 'f = n => f(n)\nf(1)']), {}, None, 50)
            elif k == 3:
                list(P.list_names('a $ b'))
            elif k == 4:
                P.parse('x = 1\ny = [2,\n3]\n')
            else:
                P.eval('[1, 2, 3] | map(v => v * 2)')
        except Exception:
            pass
        ctx.count('earlier_calls_made')
    if r.random() < 0.3:
        gram.earlier_call(P, gram.Cyc(r.getrandbits(16)))          # the shared kit (suspended generators, names=None, failing arithmetic, a cache that refuses, ...)
        ctx.count('earlier_calls_made')


class Recording(dict):
    """host names mapping that logs which keys the evaluator asks for"""

    def __init__(self, *a):
        super().__init__(*a)
        self.asked = []

    def __contains__(self, k):
        self.asked.append(k)
        return dict.__contains__(self, k)

    def __getitem__(self, k):
        self.asked.append(k)
        return dict.__getitem__(self, k)

    def get(self, k, d=None):
        self.asked.append(k)
        return dict.get(self, k, d)


class RecordingRO(collections.abc.Mapping):
    """the same for a host mapping that is a Mapping but neither a dict nor mutable (a lazy, read-only view of host data)"""

    def __init__(self, data):
        self.data = dict(data)
        self.asked = []

    def __getitem__(self, k):
        self.asked.append(k)
        return self.data[k]

    def __contains__(self, k):
        self.asked.append(k)
        return k in self.data

    def __iter__(self):
        return iter(self.data)

    def __len__(self):
        return len(self.data)


def judge_text(ctx, case, text):
    """a text as it stands: list_names vs the NAME tokens of the reference lexer (lib/reflex.py), ParserError after exactly the names before an illegal character"""
    from smartquery.exceptions import ParserError
    from lib import reflex
    try:
        truth, bad = [t[1] for t in reflex.tokens(text) if t[0] == 'NAME'], False
    except reflex.LexError as e:
        truth, bad = [t[1] for t in e.tokens if t[0] == 'NAME'], True
    got, err = [], None
    try:
        for n in ctx.P_plain.list_names(text):
            got.append(n)
    except Exception as e:
        err = e
    ctx.count('texts_judged_as_they_stand')
    if bad:
        if not isinstance(err, ParserError):
            ctx.violation('lexically invalid text: list_names raised %s' % (type(err).__name__ if err else 'nothing'), case, detail={'text': text[:300], 'yielded': got})
        elif got != truth:
            ctx.violation('names yielded before the lexical error differ from the identifiers before it', case, detail={'text': text[:300], 'expected': truth, 'got': got})
    elif err is not None:
        ctx.violation('list_names raised %s on lexically valid text' % type(err).__name__, case, detail={'text': text[:300], 'error': str(err)[:200]})
    elif got != truth:
        ctx.violation('list_names differs from the identifiers in the text', case, detail={'text': text[:300], 'expected': truth, 'got': got})


def run_cgf(case, ctx):
    """coverage-guided texts (lib/cgfuzz.py, mode c18); inputs on which the fuzzing process saw a difference are judged again here"""
    from lib import cgdriver
    _, seed, seconds = case
    r = random.Random(seed)
    seeds = ['x = [1, 2]\nx | map(v => v * 2)', '%a b% = r"\\d+" # c d\n(p, q) => p ** -q', 'not in if else and or True False None del notx in1', 'f("x")#y\n"s"in x', '1a x.y(z) %c.d%%e%',
             'a $ b', '"unterminated', 'x=>x+y', "'q' r'raw' r "]
    for i in range(10):
        seeds.append(gram.render(gram.gen('code', r, r.randint(1, 5))[:60], gram.Cyc(r.getrandbits(20)))[1])
    out = cgdriver.run(ctx, 'c18', seed, seconds, seeds)
    if out is None:
        return
    st, fired, _slow = out
    for k in ('lexically_invalid', 'valid'):
        ctx.count('coverage_guided_texts_' + k, st.get(k, 0))
    for text in fired:
        ctx.count('inputs_on_which_the_oracle_fired_in_the_fuzzing_process')
        before = len(ctx.violations)
        judge_text(ctx, ('text', text), text)
        if len(ctx.violations) == before:
            ctx.violation('coverage-guided fuzzing: the oracle fired in the fuzzing process but not when the input was judged again here', ('text', text), detail={'text': text[:300]})


def case_deadline(case):
    return case[2] + 200 if case[0] == 'cgf' else CASE_DEADLINE


def run_evaltext(case, ctx):
    """a given text evaluated with the recording names mapping: every name the host is asked for is an identifier of the text (or an implicit one)"""
    text = case[1]
    try:
        truth = list(ctx.P_plain.list_names(text))
    except Exception:
        return
    rec = Recording({'a': 1, 'b': [1, 2, 3], 'x': 'abc', 'f': lambda *a: a[0] if a else None, 'k2': {'k': 1}, 'r': 3, 'never_mentioned': 0})
    try:
        ctx.P_plain.eval(text, rec, None, 300)
    except Exception:
        pass
    ctx.count('given_texts_evaluated_with_a_recording_names_mapping')
    extra = [k for k in rec.asked if k not in set(truth) | IMPLICIT]
    if extra:
        ctx.violation('evaluation asked the host for a name that list_names does not report', case, detail={'text': text, 'asked': sorted(set(map(str, extra)))[:10], 'list_names': truth})


def run_case(case, ctx):
    from smartquery.exceptions import ParserError
    if case[0] == 'evaltext':
        return run_evaltext(case, ctx)
    if case[0] == 'cgf':
        return run_cgf(case, ctx)
    if case[0] == 'text':
        return judge_text(ctx, case, case[1])
    P = ctx.P
    if case[0] == 'direct':
        text, truth = case[1], list(case[2])
        try:
            got = list(P.list_names(text))
        except Exception as e:
            ctx.violation('list_names raised %s on lexically valid text' % type(e).__name__, case, detail={'text': text, 'error': str(e)[:200]})
            return
        ctx.count('texts_compared')
        ctx.nontriv(text)
        if got != truth:
            ctx.violation('list_names differs from the identifiers in the text', case, detail={'text': text, 'expected': truth, 'got': got})
        return
    r = random.Random(case[1])
    P = ctx.P = ctx.P_cache if case[1] % 3 == 0 else ctx.P_plain
    types = gram.gen('code', r, r.randint(1, 6))[:80]
    if r.random() < 0.3:
        types = gram.mutate(types, r)
    tight = r.random() < 0.6
    text, truth, gaps = build_text(types, r, tight, comments=r.random() < 0.5)
    earlier_calls(ctx, r)
    # (a)
    try:
        got = list(P.list_names(text))
    except Exception as e:
        ctx.violation('list_names raised %s on lexically valid text' % type(e).__name__, case, detail={'text': text, 'error': str(e)[:200]})
        return
    ctx.count('texts_compared')
    if truth:
        ctx.nontriv(text)
    if tight:
        ctx.count('tight_texts')
    if got != truth:
        ctx.violation('list_names differs from the identifiers in the text', case, detail={'text': text, 'expected': truth, 'got': got})
        return
    for n in truth:
        ctx.cov('name_kinds', 'percent' if n.startswith('%') else ('builtin-name' if n in ctx.fn_names else ('ascii' if n.isascii() else 'unicode')))
    # (b) illegal character spliced into a gap that is not inside a comment
    if gaps and '#' not in text:
        k = r.randrange(len(gaps))
        bad = r.choice(['$', '?', '\\', '~', '`', '\x00', '\xa0', '!', '&', '%', '%', ' % '])
        if '%' in bad and '%' in text[gaps[k]:].split('\n')[0]:
            bad = '$'        # a later % on the same line would close a %...% name: not a lexical error
        t2 = text[:gaps[k]] + bad + text[gaps[k]:]
        exp = []
        n_before = sum(1 for t in types[:k] if t == 'NAME')
        exp = truth[:n_before]
        # '!' directly followed by '=' would be a legal != ; '\\' etc. are always illegal
        if not (bad == '!' and t2[gaps[k] + 1:gaps[k] + 2] == '='):
            earlier_calls(ctx, r)
            out, err = [], None
            try:
                for n in P.list_names(t2):
                    out.append(n)
            except Exception as e:
                err = e
            ctx.count('invalid_texts_checked')
            if not isinstance(err, ParserError):
                ctx.violation('lexically invalid text: list_names raised %s' % (type(err).__name__ if err else 'nothing'), case,
                              detail={'text': t2, 'yielded': out})
            elif out != exp:
                ctx.violation('names yielded before the lexical error differ from the identifiers before it', case,
                              detail={'text': t2, 'expected': exp, 'got': out})
    # (c) host lookups during eval
    rec = (Recording if case[1] % 4 else RecordingRO)({'a': 1, 'b': [1, 2, 3], 'x': 'abc', 'f': lambda *a: a[0] if a else None, 'k2': {'k': 1}, '%user name%': 'u', '%a.b%': 2, 'r': 3,
                                                       'never_mentioned': 0, 'zz_unused': [1]})
    if not isinstance(rec, dict):
        ctx.count('evals_with_a_read_only_non_dict_names_mapping')
    try:
        P.eval(text, rec, None, 300)
    except Exception:
        pass
    if rec.asked:
        ctx.count('evals_with_host_lookups')
        ctx.count('host_lookups_recorded', len(rec.asked))
        allowed = set(truth) | IMPLICIT
        extra = [k for k in rec.asked if k not in allowed]
        if extra:
            ctx.violation('evaluation asked the host for a name that list_names does not report', case,
                          detail={'text': text, 'asked': sorted(set(map(str, extra)))[:10], 'list_names': truth})
    if ctx.counters['texts_compared'] % 600 == 1:
        ctx.sample({'text': text, 'identifiers': truth, 'tight': tight})


def conclusive(m):
    c = m['counters']
    for k, n in (('texts_compared', 5000), ('tight_texts', 2000), ('invalid_texts_checked', 1000), ('host_lookups_recorded', 5000), ('earlier_calls_made', 1000)):
        if c.get(k, 0) < n:
            return 'monitor counter %s = %d (< %d)' % (k, c.get(k, 0), n)
    if len(m['cover'].get('name_kinds', ())) < 4:
        return 'name kinds not all exercised'
    return None
