"""C16 - language-level failures are ParserErrors; nothing worse than an Exception ever escapes.

Monitor: call-boundary wrapper around parse / eval / list_names that records the class of whatever
is raised (BaseException included) + worker exit status (a worker killed by a signal is a violation).
Oracle: failure category -> required class; the category is known by construction of the case.
"""
import os
import random

from lib import gram

ID = 'C16'
TECHNIQUE = 'runtime monitor: exception-class oracle per failure category (by construction), swallowed-failure monitor (M1 on_raise), crash/exit-status watch; coverage-guided texts (atheris) under the arbitrary-text oracle'
RULE = '(a) programs built to fail in exactly one listed way: a fault (undefined variable, undefined function in call/method/pipe spelling, missing key/index read, pop of an empty list, element-adding mutator at the 10000 cap, compound assignment to an undefined name or missing key/index, op budget) in every evaluated position of nested expression/statement contexts (top level, after/before other lines, lambda bodies driven by map/filter/reduce/sorted and host callbacks, ast_names bodies), one eval in five preceded by poisoning calls that bound exactly the names the fault leaves undefined and then failed; a faulting lambda in every argument position of every builtin under the swallowed-failure monitor; the op budget on small programs and on deep/long programs (150-900 levels) on plain and caching parsers; lexical errors (illegal characters incl. unnamed code points and lone surrogates, unterminated strings, lone CR) spliced into valid programs at every token gap; syntax errors by truncation at every token boundary, bracket removal and stray tokens; reserved words at every atom position. (b) arbitrary text (random Unicode from all planes, latin-1 byte salad, splices and mutants of programs, 10^5-char lines, 10^4-deep nesting), judged with the reference lexer/parser where they say the text is invalid, through parse, list_names and eval. Non-trivial = the call raised and its class was judged; distinct = distinct (entry point, source text).'
RULE += ' Names mappings of the failing programs include defaultdict / __missing__ mappings (a name the mapping does not contain is undefined); every broken text is also parsed twice on a parser with a parse cache.'
RULE += ' Statement contexts include a lambda failure swallowed by a host callback before the fault (the lambda parameters carry the names the fault leaves undefined); host containers include ChainMap, UserDict, MappingProxyType, OrderedDict, tuple, range, bytes, deque.'
RULE += ' Coverage-guided texts: one atheris/libFuzzer process per worker (6 s quick, 150 s thorough) on the instrumented sandbox copy with the same oracle as the arbitrary-text family; every input on which it fired there is judged again by the worker.'
ASSUMPTIONS = ['category is known by construction: the context evaluates the fault before anything else that could fail',
               'RecursionError and MemoryError are ordinary Exceptions (acceptable for (b))',
               'a worker process killed by a signal other than the harness watchdog counts as an interpreter crash']
FINDINGS = {}
CASE_DEADLINE = 30


def case_deadline(case):
    return case[2] + 200 if case[0] == 'cgf' else CASE_DEADLINE       # a coverage-guided fuzzing run lasts case[2] seconds by design
JOURNAL = True
DEATH_IS_VIOLATION = True


def setup(ctx):
    import smartquery
    from smartquery import SqParser
    from smartquery.exceptions import ParserError, OpsExecutionLimitExceededError
    ctx.P = SqParser()
    from smartquery import functions as _functions
    ctx.count('table_entries_unknown_to_the_pinned_tree_added_to_the_identifier_pool', len(gram.use_table_names(gram.table_names())))
    ctx.PC = SqParser(parse_cache={})
    ctx.PE, ctx.OPS = ParserError, OpsExecutionLimitExceededError
    from lib import monitors
    from smartquery import functions
    ctx.fn_names = sorted(functions.FUNCTIONS)
    ctx.M1 = monitors.NodeMonitor()
    ctx.inside = [0, None]

    def on_raise(node, state, exc):
        if isinstance(exc, ParserError):
            ctx.inside[0] += 1
            if ctx.inside[1] is None:
                ctx.inside[1] = '%s: %s' % (type(node).__name__, str(exc)[:80])
    ctx.M1.on_raise = on_raise
    ctx.big = list(range(10000))
    ctx.bigd = {str(i): i for i in range(10000)}


# ----------------------------------------------------------------- (a) fault expressions and contexts
EXPR_FAULTS = {
    'undefined-variable': ['nope', '%no such%', 'nope_1'],
    'undefined-function': ['nofn(1)', 'nofn()', 'x.nofn()', 'x | nofn', 'x | nofn(2)', 'l.nofn(1, 2)', 'nofn(nope2)'],
    'missing-key-or-index': ['d["missing"]', 'd[0]', 'l[99]', 'l[-99]', 's[99]', 'e[0]', 'l[3]', 'd[None]', 'd["k"]["z"]',
                             'l[0.5 + 99]', '{"a": 1}["b"]', '[1, 2][2]',
                             # host containers that are mappings / sequences without being dict / list
                             'cm["missing"]', 'ud["zz"]', 'mp["zz"]', 'ud["k"]["zz"]', 'od["zz"]', 'tup[5]', 'rng[7]', 'by[9]', 'cm[0]', 'ud[1.5]', 'dq[4]'],
    'pop-empty': ['pop(e)', 'e.pop()', 'pop([])', 'e | pop', '[] | pop'],
    'size-cap': ['push(big, 1)', 'big.insert(0, 1)', 'insert(big, 5, 1)', 'big | push(1)', 'push(big, big)'],
}
STMT_FAULTS = {
    'compound-undefined-name': ['u += 1', 'u -= 1', 'u *= 2', 'u /= 2', 'u += "a"', '%u v% += 1', 'u += nope'],
    'compound-missing-key': ['d["new"] += 1', 'l[99] -= 1', 'e[0] *= 2', 'd[5] /= 1', 'd["k2"] += "s"', 'l[-50] += 1', 'ud["new"] += 1', 'cm["new"] -= 1', 'tup[5] += 1', 'mp["zz"] += 1',
                             'od["zz"] *= 2'],
    'size-cap': ['big[0] = 1', 'bigd["zz"] = 1', 'big[0] += 1', 'bigd["0"] += 1', 'bigd[77777] = 2'],
    'undefined-variable': ['y = nope', 'l[nope] = 1', 'del l[nope]', 'nopec[0] = 1', 'nopec[0] += 1', 'del nopec[0]', 'x += nope',
                           'l[0] = nope', 'l[0] += nope', 'd[nope] -= 1'],
    'undefined-function': ['y = nofn()', 'l[0] = nofn(1)', 'x -= nofn(x)', 'del l[nofn()]'],
}
# contexts: '@' is the hole; everything left of it evaluates without failing, nothing right of it is reached
EXPR_CTX = ['@', '1 + @', '@ + 1', 'x * (2 - @)', '[1, @, 3]', '{"a": @}', '{@: 1}', 'f(1, @)', 'f(@, nope_never)', 'str(@)',
            '@ if True else 0', '0 if @ else 1', '0 if False else @', 'True and @', 'False or @', '@ and nope_never', 'not @', '-@',
            'l[@]', 'l[0:@]', 'l[@:]', 'l[::@]', 's[@]', '(@).upper()', '@ | str', 'x | f(@)', 'x.f(@)', 'f(x)[@]',
            '@ == 1', '1 in [@]', '@ not in l', '(@) ** 2', 'len([@])', 'f(f(f(@)))', '[[@]]', '{"a": {"b": [@]}}',
            'map([1], v => @)', 'map([1, 2], v => v + @)', 'filter(l, v => @)', 'reduce(l, (a, b) => @)', 'sorted(l, v => @)',
            'map(d, (k, v) => @)', 'sorted(d, (k, v) => @)', 'hm(v => @, 2)', 'hm(v => hm(w => @, 1), 1)', 'map([1], v => map([2], w => @))',
            'f(1,\n @\n)', '[\n@]', '1 + @ # trailing comment']
STMT_CTX = ['@', 'y = 1\n@', '@\ny = 1', 'y = 1;@;z = 2', '\n\n@\n', 'y = 1\r\n@', 'g = v => v\n@', '# c\n@',
            # error path before the fault: a lambda whose parameters carry exactly the names the fault leaves undefined fails, a host callback swallows
            # that failure, and evaluation goes on - the parameters are gone with the failed call
            'attempt((nope, nofn, u, nopec, nope_1, nope2, %no such%, %u v%) => [][5], 1, (v => v), 3, [1], 5, 6, 7, 8)\n@',
            'attempt(u => attempt(nope => nofn_inner(1), 2), 1);@']
LINE_CTX = ['y = @', 'x += @', 'l[0] = @', 'l[@] = 1', 'd["k"] += @', 'del l[@]', 'y = 1\nz = @', 'g = v => @\ng(1)', 'g = v => @\nmap(l, g)',
            'g = v => @\nh = w => g(w)\nh(2)', 'x -= @', 'd[@] = 1']


class MissingDict(dict):
    """a host mapping that answers unknown keys itself (the way defaultdict / Counter do) without storing them"""
    def __missing__(self, key):
        return 0


def names(ctx, variant=0):
    def hm(fn, n):
        return [fn(i) for i in range(int(n))]
    if variant in (4, 5, 6):
        # host mappings whose subscript never raises KeyError: a name the mapping does not CONTAIN is still undefined for the language
        import collections
        base = names(ctx)
        ctx.count('evals_on_names_mappings_with___missing__')
        return collections.defaultdict(int, base) if variant == 4 else MissingDict(base) if variant == 5 else collections.defaultdict(list, base)
    def attempt(fn, *a):
        try:
            return fn(*a)
        except Exception:
            return None
    import collections
    import types
    return {'cm': collections.ChainMap({'k': 1}), 'ud': collections.UserDict({'k': {'q': 1}}), 'mp': types.MappingProxyType({'k': 1}), 'od': collections.OrderedDict(k=1), 'tup': (1, 2),
            'rng': range(3), 'by': b'ab', 'dq': collections.deque([1, 2]),
            'attempt': attempt, 'l': [1, 2, 3], 'ls': ['b', 'a'], 'd': {'k': {'q': 1}}, 's': 'abc', 'x': 5, 'e': [], 'f': lambda *a: a[-1] if a else None, 'hm': hm,
            'big': list(ctx.big), 'bigd': dict(ctx.bigd)}


LEX_BAD = ['$', '?', '\\', '!', '&', '~', '^', '@', '`', '\r', '"abc', "'abc", '"abc\\', '\x00', '\x7f', '\u200f', '\ufeff', '\xa0',
           '\u2116', '\u20ac', '"a\nb"', "'", '"', '\x0b', '\x0c', '\u3000', '\x85', '\ue000', '\u0378', '\uffff', '\udc80', '\U000e0000', '\x1f', '\u2028', '\U0010ffff']
OPEN_OF = {'RPAREN': 'LPAREN', 'RBRACKET': 'LBRACKET', 'RBRACE': 'LBRACE'}


def cases(ctx):
    rnd = ctx.rnd
    n = 0
    if os.environ.get('C16_ONLY') == 'cgf':          # development aid (never set by a registered command): the coverage-guided stage alone
        yield ('cgf', rnd.getrandbits(30), ctx.scale(6, 150))
        return
    # ---- (a) evaluation-time categories
    single = [c for c in EXPR_CTX if '\n' not in c and '#' not in c]
    for cat, faults in EXPR_FAULTS.items():
        for fault in faults:
            for c1 in EXPR_CTX:
                if n % ctx.nshards == ctx.shard:
                    # the hole is parenthesised: the oracle's claim is about the text as rendered
                    src1 = c1.replace('@', fault if c1 == '@' else '(' + fault + ')')
                    variants = [src1]
                    if c1 in single:
                        ws = rnd.sample(single, 2) if ctx.quick else single
                        variants += [w.replace('@', '(' + src1 + ')') for w in ws]
                        ls = rnd.sample(LINE_CTX, 2) if ctx.quick else LINE_CTX
                        variants += [w.replace('@', '(' + src1 + ')') for w in ls]
                    for k, v in enumerate(variants):
                        for sc in (STMT_CTX if (k == 0 or not ctx.quick) else [rnd.choice(STMT_CTX)]):
                            yield ('eval', cat, sc.replace('@', v), None)
                n += 1
    for cat, faults in STMT_FAULTS.items():
        for fault in faults:
            for sc in STMT_CTX:
                if n % ctx.nshards == ctx.shard:
                    yield ('eval', cat, sc.replace('@', fault), None)
                    yield ('eval', cat, 'af(1)', sc.replace('@', fault))   # inside an ast_names lambda body
                    yield ('eval', cat, 'map([1, 2], af)', 'y = v\n' + fault)
                    yield ('eval', cat, 'hm(af, 1)', fault + '\n5')
                n += 1
    # ---- a language-level failure inside a lambda handed to a builtin (any argument position): if the lambda runs, the failure must surface
    for name in ctx.fn_names:
        for pos in range(3):
            for fault in ('nope', 'nofn(1)', 'd["missing"]', 'pop(e)', 'l[99]'):
                if n % ctx.nshards == ctx.shard:
                    args = ['l', 'd', 's', '1', 'ls']
                    a = [rnd.choice(args) for _ in range(rnd.randint(max(1, pos + 1), 3))]
                    a[pos] = rnd.choice(['(v => %s)', '((p, q) => %s)', '(v => [v, %s])']) % fault
                    yield ('lamarg', name, '%s(%s)' % (name, ', '.join(a)))
                n += 1
    # ---- op budget
    progs = ['1 + 2 * 3 - 4', '[1, 2, 3] | map(v => v * 2) | sum', 'f = n => 1 if n < 1 else n * f(n - 1)\nf(6)',
             'x = 1\nx += 2\nl[0] = x\nd["k"] = l', 'sorted([3, 1, 2], v => -v)', 'hm(v => v + 1, 5)', '{"a": [1, 2][0]}', 'l[0:2][::-1] | len',
             'f = n => f(n + 1)\nf(0)', 'g = n => hm(v => g(v), 2)\ng(1)']
    for p in progs:
        for budget in list(range(1, 60)) + [100]:
            if n % ctx.nshards == ctx.shard:
                yield ('ops', p, budget)
            n += 1
    # ---- op budget on deep / long programs (plain and caching parser): the budget must win over every other resource
    for shape in ('long-chain', 'deep-bracket', 'deep-call', 'deep-dot', 'deep-not', 'deep-unary', 'deep-index'):
        for size in (150, 230, 300, 600, 900):
            for budget in (5, 50, 120):
                if n % ctx.nshards == ctx.shard:
                    yield ('deepops', shape, size, budget)
                n += 1
    # ---- lexical, syntax, reserved: valid programs + one injected fault
    for _ in range(ctx.scale(60, 1500)):
        types = []
        for k in range(rnd.randint(1, 4)):
            if k:
                types.append('NEWLINE')
            types += gram.gen('statement', rnd, rnd.randint(1, 4))
        if not types or len(types) > 50:
            continue
        yield ('prog', tuple(types), rnd.getrandbits(30), rnd.getrandbits(30))
    # ---- (b) arbitrary text
    yield ('cgf', rnd.getrandbits(30), ctx.scale(6, 150))          # coverage-guided, one fuzzing process per worker
    for _ in range(ctx.scale(2500, 60000)):
        yield ('fuzz', rnd.getrandbits(48))
    if ctx.shard == 0:
        for kind in ('deep-paren', 'deep-bracket', 'deep-brace', 'deep-unary', 'deep-not', 'long-chain', 'long-line', 'long-string',
                     'many-lines', 'deep-lambda', 'deep-index', 'deep-call', 'deep-dot', 'deep-if', 'many-semicolons', 'unclosed-deep'):
            for size in ((300, 3000) if ctx.quick else (300, 3000, 10000, 30000)):
                yield ('big', kind, size)


ALPH = ['a', 'b', 'x', 'f', 'l', 'd', '0', '1', '2.5', '9', '"s"', "'", '"', '\\', 'r"', '+', '-', '*', '**', '/', '=', '==', '!=', '<', '>', '<=', '>=',
        '=>', '+=', '*=', '(', ')', '[', ']', '{', '}', ',', '.', '|', ':', ';', '\n', '\r\n', '\r', ' ', '\t', '#', '%', '%a b%', 'and', 'or', 'not',
        'in', 'if', 'else', 'True', 'False', 'None', 'del', 'for', 'while', 'def', 'len', 'map', 'push', 'str', 'v => v', '\x00', '\x7f', ' ',
        '﻿', '‏', '‮', 'é', 'я', '中', '\U0001f600', '́', '١٢', '²', 'ǅ', '\udc80', '\ud800', '$', '?', '!', '&', '@', '`', '~', '^']


def fuzz_text(seed):
    r = random.Random(seed)
    mode = r.randrange(5)
    n = r.choice([1, 2, 3, 5, 8, 13, 30, 80])
    if mode == 0:
        return ''.join(r.choice(ALPH) + r.choice(['', ' ']) for _ in range(n))
    if mode == 1:
        return ''.join(chr(r.choice([r.randrange(0, 0x100), r.randrange(0, 0x3000), r.randrange(0, 0x110000)])) for _ in range(n))
    if mode == 2:
        return bytes(r.randrange(256) for _ in range(n)).decode('latin-1')
    if mode == 3:  # a valid-ish program with a random splice
        types = gram.gen('code', r, r.randint(1, 5))[:60]
        _, text = gram.render(types, r)
        k = r.randrange(len(text) + 1)
        return text[:k] + r.choice(ALPH) + text[k:]
    types = gram.gen('code', r, r.randint(1, 5))[:60]
    for _ in range(r.randint(0, 3)):
        types = gram.mutate(types, r)
    return gram.render(types, r)[1]


def big_text(kind, n):
    return {
        'deep-paren': '(' * n + '1' + ')' * n, 'deep-bracket': '[' * n + ']' * n, 'deep-brace': '{"a":' * n + '1' + '}' * n,
        'deep-unary': '-' * n + '1', 'deep-not': 'not ' * n + 'x', 'long-chain': '1' + ' + 1' * n, 'long-line': 'x = "' + 'a' * (n * 10) + '"',
        'long-string': '"' + 'ab\\"' * n + '"', 'many-lines': 'x = 1\n' * n, 'deep-lambda': 'a => ' * n + '1', 'deep-index': 'l' + '[0]' * n,
        'deep-call': 'f(' * n + '1' + ')' * n, 'deep-dot': 'x' + '.f()' * n, 'deep-if': '1 if x else ' * n + '2', 'many-semicolons': ';' * n,
        'unclosed-deep': '(' * n,
    }[kind]


def judge(ctx, case, entry, src, exc, required=None, cat=None):
    """exc: the BaseException raised (or None)."""
    from lib.core import CaseTimeout
    if isinstance(exc, CaseTimeout):
        raise exc
    if exc is None:
        if required is not None:
            ctx.violation('a program built to fail (%s) did not fail' % cat, case, detail={'entry': entry, 'src': src})
        return
    ctx.nontriv(entry + '\0' + src[:2000])
    ctx.count('raised_' + type(exc).__name__)
    if not isinstance(exc, Exception):
        ctx.violation('%s raised a %s, which is not an ordinary Exception' % (entry, type(exc).__name__), case,
                      detail={'src': src[:300], 'error': repr(exc)[:200]})
        return
    if required is not None:
        ctx.count('judged_' + cat)
        if not isinstance(exc, required):
            ctx.violation('%s reported as %s instead of %s' % (cat, type(exc).__name__, required.__name__), case,
                          detail={'entry': entry, 'src': src[:400], 'error': ('%s: %s' % (type(exc).__name__, exc))[:300]})


CALLS = [0]


def finish(ctx):
    ctx.evaluations = max(ctx.evaluations, CALLS[0])   # executions, not generator items


def call(fn, *a, **k):
    CALLS[0] += 1
    try:
        r = fn(*a, **k)
        if hasattr(r, '__next__'):
            for _ in r:
                pass
        return None
    except BaseException as e:
        return e


def run_cgf(case, ctx):
    """coverage-guided generation of texts (atheris / libFuzzer on the instrumented sandbox copy, lib/cgfuzz.py) for this check's oracle; every input on
    which the oracle fired there is judged again here, by this worker's own monitors"""
    from lib import cgdriver
    _, seed, seconds = case
    r = random.Random(seed)
    seeds = ['x = [1, 2]\nx | map(v => v * 2)', 'f(1, {"a": b.c(d)}) if not x else y[1:2]', 'd["k"] += 1; del l[0]', '%a b% = r"\\d+" # c\n(p, q) => p ** -q', 'u += nope', 'l[99] -= 1',
             '1 +', 'x = )', 'for x', '"abc', 'a $ b', 'pop([])', 'big.push(1)']
    for i in range(12):
        seeds.append(gram.render(gram.gen('code', r, r.randint(1, 5))[:60], r)[1])
    out = cgdriver.run(ctx, 'c16', seed, seconds, seeds)
    if out is None:
        return
    st, fired, _slow = out
    for k in ('lexically_invalid', 'syntactically_invalid', 'valid'):
        ctx.count('coverage_guided_texts_' + k, st.get(k, 0))
    for k in st.get('raised', {}):
        ctx.cov('exception_classes_seen_under_coverage_guidance', k)
    for text in fired:
        ctx.count('inputs_on_which_the_oracle_fired_in_the_fuzzing_process')
        before = len(ctx.violations)
        run_case(('text', text), ctx)
        if len(ctx.violations) == before:
            ctx.violation('coverage-guided fuzzing: the oracle fired in the fuzzing process but not when the input was judged again here', ('text', text), detail={'text': text[:300]})


def run_case(case, ctx):
    P, PE = ctx.P, ctx.PE
    ctx.M1.lambdas.clear()         # the registry keeps every lambda (and through it the names of its evaluation - two 10000-element containers) alive
    kind = case[0]
    if kind == 'lamarg':
        ctx.inside[:] = [0, None]
        e = call(P.eval, case[2], names(ctx), None, 10 ** 5)
        judge(ctx, case, 'eval', case[2], e)
        ctx.count('lambda_argument_cases')
        if e is None and ctx.inside[0]:
            ctx.violation('a language-level failure raised during the evaluation was swallowed: eval returned normally', case,
                          detail={'src': case[2], 'first_failure_inside': ctx.inside[1], 'failures_inside': ctx.inside[0]})
        elif e is not None and ctx.inside[0] and not isinstance(e, PE):
            ctx.count('lambda_argument_failures_surfacing_as_' + type(e).__name__)
        return
    if kind == 'eval':
        ctx.inside[:] = [0, None]
        _, cat, src, ast_body = case
        ast_names = None
        if ast_body is not None:
            from smartquery.ast_ops import LambdaOp, NameOp
            ast_names = {'af': LambdaOp(args=[NameOp('v')], expr=P.parse(ast_body))}
        if hash(src) % 5 == 0:
            # an earlier call on the same parser bound exactly the names this program leaves undefined - by assignment and through its own names mapping -
            # and then failed at run time / ran out of budget / succeeded; none of that may leak into this call
            poison = {'nope': 1, 'nope_1': 1, 'nope2': 2, '%no such%': 3, 'nofn': (lambda *a: 0), 'u': 5, '%u v%': 6, 'nopec': [1, 2], 'e': [9], 'l': list(range(200)), 'd': {'missing': 1, 'new': 1}}
            for psrc, budget in (('nope = 1\nnofn = v => v\nu = 1\nnopec = [1]\nrows = [1, 2]\nrows[7]', 1000), ('u = 2\nnope = 2\nf = n => f(n + 1)\nf(0)', 60), ('nope = 3\nu = 3\n[nope, u]', 1000)):
                call(P.eval, psrc, dict(poison), None, budget)
            ctx.count('evals_preceded_by_poisoning_calls')
        e = call(P.eval, src, names(ctx, hash(src) % 8), ast_names, 10 ** 6)
        judge(ctx, case, 'eval', src, e, PE, cat)
        ctx.cov('categories', cat)
        if ctx.counters['judged_' + cat] % 300 == 1:
            ctx.sample({'category': cat, 'src': src, 'ast_names_body': ast_body, 'raised': type(e).__name__ if e else None})
    elif kind == 'ops':
        _, src, budget = case
        e = call(P.eval, src, names(ctx), None, budget)
        infinite = 'f(n + 1)' in src or 'g(v)' in src
        if not infinite:
            e2 = call(P.eval, src, names(ctx), None, 10 ** 6)
            if e2 is not None:
                ctx.count('budget_program_fails_unbounded(harness)')
                return
            if e is None:
                ctx.count('budget_sufficient')
                return
        # the unbounded run succeeds (or never ends): this failure is caused by the budget
        judge(ctx, case, 'eval', src, e, ctx.OPS, 'op-budget')
        ctx.cov('categories', 'op-budget')
    elif kind == 'deepops':
        _, shape, size, budget = case
        src = big_text(shape, size)
        for P2, which in ((P, 'plain parser'), (ctx.PC, 'caching parser'), (ctx.PC, 'caching parser, cache hit')):
            e = call(P2.eval, src, names(ctx), None, budget)
            # the program needs far more than `budget` operations, and the first `budget` of them are harmless
            judge(ctx, case, 'eval', src[:60] + '... (%s, %d levels, %s)' % (shape, size, which), e, ctx.OPS, 'op-budget')
        ctx.cov('categories', 'op-budget')
    elif kind == 'prog':
        _, types, seed, sub = case
        r = random.Random(sub)
        toks, text, spans = gram.render_layout(types, gram.Cyc(seed))
        if call(P.parse, text) is not None:
            ctx.count('invalid_bases_dropped')
            return
        subs = []
        # lexical: splice an illegal character sequence into every token gap (and inside the text ends)
        cuts = [0] + [e for _, e in spans]
        for c in cuts:
            bad = r.choice(LEX_BAD)
            rest_of_line = text[c:].split('\n')[0]
            if ('"' in bad and '"' in rest_of_line) or ("'" in bad and "'" in rest_of_line):
                bad = '$'   # a later quote on the same line would close the string: not a lexical error
            subs.append(('lexical-error', text[:c] + ' ' + bad + ' ' + text[c:]))
        # syntax: truncation at every token boundary, bracket removal, stray tokens
        for k in range(1, len(types)):
            subs.append(('syntax?', gram.render_layout(types[:k], gram.Cyc(seed))[1]))
        for i, t in enumerate(types):
            if t in OPEN_OF or t in OPEN_OF.values():
                subs.append(('syntax-error', gram.render_layout(types[:i] + types[i + 1:], gram.Cyc(seed))[1]))
            if t in ('NAME', 'NUMBER', 'STRING', 'TRUE', 'FALSE', 'NONE'):
                w = r.choice(gram.RESERVED_UNUSED)
                subs.append(('reserved-word', gram.render_layout(types[:i] + (w,) + types[i + 1:], gram.Cyc(seed))[1]))
        for cat, t2 in subs:
            ctx.evaluations += 1
            for entry, fn in (('parse', P.parse), ('eval', lambda s: P.eval(s, names(ctx)))):
                e = call(fn, t2)
                if cat == 'syntax?':
                    judge(ctx, case, entry, t2, e if entry == 'parse' else None)   # truncations may be valid
                    if e is not None and entry == 'parse':
                        judge(ctx, case, entry, t2, e, PE, 'syntax-error')
                elif entry == 'parse':
                    judge(ctx, case, entry, t2, e, PE, cat)
                else:
                    judge(ctx, case, entry, t2, e)
            if cat == 'lexical-error':
                e = call(P.list_names, t2)
                judge(ctx, case, 'list_names', t2, e, PE, cat)
            if cat != 'syntax?':
                # the same broken text submitted twice to a parser with a parse cache: the second submission fails like the first
                for rep in ('caching parser, first submission', 'caching parser, second submission'):
                    e = call(ctx.PC.parse, t2)
                    judge(ctx, case, 'parse (%s)' % rep, t2, e, PE, cat)
                ctx.count('broken_texts_resubmitted_to_a_caching_parser')
            ctx.cov('categories', cat)
    elif kind == 'cgf':
        run_cgf(case, ctx)
    elif kind in ('fuzz', 'text'):
        text = fuzz_text(case[1]) if kind == 'fuzz' else case[1]
        # the reference lexer / parser tell which failures are language-level by construction of the language, not of the implementation
        from lib import reflex, refparser
        lex_bad = syn_bad = False
        try:
            toks = reflex.tokens(text)
            try:
                refparser.ref_parse([(t[0], t[1]) for t in toks])
            except refparser.Reject:
                syn_bad = True
            except RecursionError:
                pass
        except reflex.LexError:
            lex_bad = True
        for entry, fn in (('parse', P.parse), ('list_names', P.list_names), ('eval', lambda s: P.eval(s, names(ctx), None, 2000))):
            e = call(fn, text)
            if entry == 'list_names' and lex_bad:
                judge(ctx, case, entry, text, e, PE, 'lexical-error')
            elif entry == 'parse' and (lex_bad or syn_bad) and e is not None:
                judge(ctx, case, entry, text, e, PE, 'lexical-error' if lex_bad else 'syntax-error')
            else:
                judge(ctx, case, entry, text, e)
            ctx.count('fuzz_calls')
        if ctx.counters['fuzz_calls'] % 3000 == 3:
            ctx.sample({'fuzz_text': text})
    elif kind == 'big':
        text = big_text(case[1], case[2])
        for entry, fn in (('parse', P.parse), ('list_names', P.list_names), ('eval', lambda s: P.eval(s, names(ctx), None, 10 ** 6))):
            e = call(fn, text)
            judge(ctx, case, entry, text, e)
            ctx.count('big_calls')
            ctx.cov('big_outcomes', '%s/%s/%d -> %s' % (case[1], entry, case[2], type(e).__name__ if e else 'ok'))


def conclusive(m):
    c = m['counters']
    need = ['undefined-variable', 'undefined-function', 'missing-key-or-index', 'pop-empty', 'size-cap', 'compound-undefined-name',
            'compound-missing-key', 'op-budget', 'lexical-error', 'syntax-error', 'reserved-word']
    for k in need:
        if c.get('judged_' + k, 0) < 20:
            return 'category %s judged only %d times' % (k, c.get('judged_' + k, 0))
    if c.get('fuzz_calls', 0) < 1000 or c.get('big_calls', 0) < 10:
        return 'arbitrary-text workload did not run'
    return None
