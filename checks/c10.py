"""C10 - scoping: innermost-first lookup, host write-back, no leaking lambda scopes.

Monitors: M4 (scope monitor: every lookup is re-resolved independently, innermost scope that binds the name),
M1 (at every node exit AND raise the scope-stack depth must equal the depth at that node's enter; at AssignOp/
ShortOp exits inside a lambda call, outer bindings of the same name must be untouched), snapshots of the
builtin table, and the reference evaluator R2 for the value-level consequences (result, host names afterwards).
"""
import copy
import random
from decimal import Decimal

from lib import heap, monitors, reflex, refparser, refeval

ID = 'C10'
TECHNIQUE = "runtime monitor: scope-stack invariants at every node exit/raise (M1+M4), independent re-resolution of every lookup, R2 differential; coverage-guided programs (atheris) under the scope monitors, the repository's tests"
RULE = ('scoping scenarios: programs of 2-9 statements over a small pool of names bound at one, two or all three levels (builtins len/str/max/upper/sum, host names, '
        'lambda parameters/locals): lambdas with free names resolved at call time, parameters named like builtins and host names, calls with too few/too many arguments, '
        'top-level (re)assignment of builtin/host names between two calls of the same lambda, nested and re-entrant (recursive) calls, lambdas driven by map/filter/reduce/sorted '
        'and host callbacks, bodies that raise at any depth under a host callback try_ that swallows the error and lets the program continue, ast_names lambdas with multi-statement '
        'bodies that assign (plain and compound) to parameter, local, host and builtin names. Non-trivial = at least one lambda call happened and all monitors ran; '
        'distinct = distinct (program text, ast_names body).')
RULE += ' Host callback reenter(k) evaluates another program on the same parser with its own names while the call is in flight (reference side: R2).'
RULE += ' Host values include a wildcard object equal to everything and one equal to nothing (falsy), also bound over the builtin max and passed as lambda arguments.'
RULE += " One more workload: the repository's own test-suite, run in a worker process against the sandbox copy with this check's monitors installed (the tests' assertions are not the oracle, the monitors are)."
RULE += ' Coverage-guided programs: one atheris/libFuzzer process per worker (5 s quick, 100 s thorough) runs generated program texts under the scope monitors alone (innermost-first lookups, depth at exit/raise of every node equal to its entry, outer bindings untouched, exactly the host scope left, builtin table unchanged); programs on which an unlisted violation was recorded there are judged again by the worker.'
ASSUMPTIONS = ['R2 (lib/refeval.py) defines the expected result and host names: innermost-first resolution, top-level assignments written to the host mapping, parameters and '
               'lambda-local assignments vanish with the call',
               'try_(f, args...) is a host callback that calls the program lambda and swallows any Exception']
FINDINGS = {
    'inplace-augassign-outer-list': 'x += [...] executed inside a lambda call (ast_names body) on a list bound at host level extends the host\'s list in place',
}
CASE_DEADLINE = 20
D = Decimal
POOL = ['a', 'b', 'x', 'len', 'str', 'max', 'hv', 'hs', 'hl', 'hw', 'hn']
FNS = ['f', 'g', 'h', 'upper']


class Wild:
    """a host value that compares equal to everything (a matcher / wildcard object such as unittest.mock.ANY): still a value like any other"""
    def __init__(self, tag):
        self.verif_tag = tag

    def __eq__(self, other):
        return True

    def __ne__(self, other):
        return False

    def __hash__(self):
        return 7

    def __repr__(self):
        return 'Wild(%s)' % self.verif_tag


class Never(Wild):
    """... and one that compares unequal to everything, itself included, and is falsy"""
    def __eq__(self, other):
        return False

    def __ne__(self, other):
        return True

    def __bool__(self):
        return False


def host(ctx):
    def try_(f, *a):
        try:
            return f(*a)
        except RecursionError:
            ctx.recursion_seen = True      # interpreter stack exhaustion (on either evaluator): the case is not judged
            return 'caught'
        except Exception:
            return 'caught'

    def hm(f, n):
        return [f(D(i)) for i in range(int(n))]
    return {'hv': D(10), 'hs': 'host', 'hl': [D(1), D(2)], 'a': D(1), 'b': D(2), 'x': D(3), 'try_': try_, 'hm': hm, 'hw': Wild('w'), 'hn': Never('n'), 'max': Wild('host-max')}


def body_expr(r, params, depth=2):
    p = r.choice(params) if params else 'hv'
    n = r.choice(POOL)
    c = r.randrange(12)
    if depth <= 0:
        c = r.randrange(4)
    if c == 0:
        return '%s + %s' % (p, n)
    if c == 1:
        return '%s(%s)' % (r.choice(['len', 'str', 'max', 'upper', 'sum'] + FNS), p)
    if c == 2:
        return '[%s, %s]' % (p, n)
    if c == 3:
        return n
    if c == 4:
        return '%s if %s else 0' % (p, n)
    if c == 5:
        q = r.choice(['q', 'a', 'len', p])
        return 'map([1, 2], %s => %s)' % (q, body_expr(r, params + [q], depth - 1))
    if c == 6:
        return '%s(%s)' % (r.choice(FNS), p)
    if c == 7:
        f = r.choice(FNS)
        return '(%s(%s - 1) + %s) if %s > 0 else 0' % (f, p, p, p)            # re-entrant when f is this lambda
    if c == 8:
        return 'try_(%s => %s, %s)' % (r.choice(['w', 'x', p]), body_expr(r, params + ['w'], depth - 1), p)
    if c == 9:
        if r.random() < 0.6:
            return '[reenter(%s), %s, %s]' % (r.choice(['1', '2', p]), p, n)
        return '%s + nope_undefined' % p
    if c == 10:
        return 'reduce([1, 2, 3], (%s, acc2) => %s + acc2)' % (p, p)
    return 'sorted([3, 1, 2], %s => 0 - %s)' % (r.choice(['k', p]), r.choice(['k', p]))


def gen_program(r):
    lines = []
    # phase 1: one to three lambda definitions
    for _ in range(r.randint(1, 3)):
        f = r.choice(FNS)
        if r.random() < 0.7:
            p = r.choice(['v', 'n', 'len', 'x', 'hv', 'a'])
            lines.append('%s = %s => %s' % (f, p, body_expr(r, [p])))
        else:
            p, q = r.sample(['v', 'n', 'len', 'x', 'hv', 'a', 'str', 's'], 2)
            lines.append('%s = (%s, %s) => %s' % (f, p, q, body_expr(r, [p, q])))
    # phase 2: calls interleaved with (re)assignments of names at every level
    for _ in range(r.randint(2, 7)):
        c = r.randrange(12)
        if c < 2:
            f = r.choice(FNS)
            p = r.choice(['v', 'n', 'len', 'x', 'hv', 'a'])
            lines.append('%s = %s => %s' % (f, p, body_expr(r, [p])))
        elif c < 4:
            n = r.choice(POOL + FNS)
            v = r.choice(['5', '"s"', '[1, 2, 3]', 'v => 42', 'v => v + 1', '(p, q) => q', 'hv', 'len', 'str', '%s + 1' % r.choice(['hv', 'a', 'x']), 'None'])
            lines.append('%s = %s' % (n, v))
        elif c == 4:
            lines.append('%s += %s' % (r.choice(POOL), r.choice(['1', '"t"', '[7]'])))
        elif c < 10:
            defined = [l.split(' = ')[0] for l in lines if ' => ' in l]
            f = r.choice(defined + defined + FNS + ['len', 'str', 'af'])
            arg = r.choice(['1', '2', '"ab"', 'hv', 'hl', 'a', 'x', '[1, 2]', '99', '120', 'hw', 'hn', 'hw'])
            form = r.randrange(10)
            lines.append(['%s(%s)' % (f, arg), '%s(%s, %s)' % (f, arg, r.choice(['3', 'len', 'str', '"z"'])), 'try_(%s, %s)' % (f, arg), 'hm(%s, 2)' % f, 'map([1, 2], %s)' % f,
                          'try_(%s, %s, 4)' % (f, arg), '%s()' % f, 'filter([1, 0, 2], %s)' % f, '(%s) | %s' % (arg, f), 'r%d = try_(%s, %s)' % (len(lines), f, arg)][form])
        else:
            lines.append(r.choice(['[%s, %s]' % (r.choice(POOL), r.choice(POOL)), r.choice(POOL), 'len("abc")', 'str(5)', 'max(1, 2)', 'upper("x")',
                                   'reenter(1)', 'z%d = reenter(2)' % len(lines), '[reenter(1), hv, a]']))
    return lines


def gen_ast_body(r):
    lines = []
    for _ in range(r.randint(1, 4)):
        n = r.choice(POOL + ['p0', 'p1', 'loc'])
        c = r.randrange(5)
        if c == 0:
            lines.append('%s = %s' % (n, r.choice(['p0 + 1', '99', '[p0, p1]', '"L"', 'len', 'hv'])))
        elif c == 1:
            lines.append('%s += %s' % (n, r.choice(['1', '[7]', '"t"', 'p0'])))
        elif c == 2:
            lines.append('%s -= 1' % n)
        elif c == 3:
            lines.append(r.choice(['nope_in_body', 'f(p0)', 'loc2 = p1\nloc2', 'hl[0] = 5', 'push(hl, 3)']))
        else:
            lines.append('[%s, p0]' % n)
    lines.append(r.choice(['p0', 'loc if False else p1', '[p0, p1]', 'hv']))
    return '\n'.join(lines)


class Watch:
    def __init__(self, ctx):
        self.ctx = ctx
        self.stack = []
        self.case = None
        self.src = ''
        self.viol = None
        self.recursion = False
        self.lambda_calls = 0

    def enter(self, node, state):
        depth = len(state.names.scopes)
        pre = None
        k = type(node).__name__
        if (k == 'ShortOp' or k == 'AssignOp') and depth > 2:
            # bindings of the same name in outer scopes (host level and enclosing calls) must not be altered
            pre = []
            scopes = state.names.scopes
            for d in range(1, depth - 1):
                if node.name in scopes[d]:
                    v = scopes[d][node.name]
                    pre.append((d, v, heap.fingerprint(v)))
        self.stack.append((node, depth, pre, id(state)))

    def leave(self, node, state, how):
        if not self.stack:
            return
        n, depth, pre, sid = self.stack.pop()
        if id(state) != sid or n is not node:
            return
        now = len(state.names.scopes)
        if now != depth and self.viol is None:
            self.viol = ('scope stack depth %d at %s of a %s node, %d at its entry (a lambda scope leaked or was popped twice)' % (now, how, type(node).__name__, depth), None,
                         {'node': type(node).__name__, 'name': getattr(node, 'name', None)})
        if pre and self.viol is None:
            scopes = state.names.scopes
            for d, v, fp in pre:
                if d < len(scopes):
                    cur = scopes[d].get(node.name, None)
                    if cur is not v or heap.fingerprint(cur) != fp:
                        finding = None
                        if type(node).__name__ == 'ShortOp' and node.op == '+=' and isinstance(v, list) and cur is v:
                            finding = 'inplace-augassign-outer-list'
                        self.viol = ('an assignment made during a lambda call altered the outer binding of %r (scope level %d)' % (node.name, d), finding,
                                     {'name': node.name, 'before': str(fp)[:120], 'after': repr(cur)[:120]})

    def exit(self, node, state, value):
        self.leave(node, state, 'exit')

    def raised(self, node, state, exc):
        if isinstance(exc, RecursionError):
            self.recursion = True          # interpreter stack exhaustion: nothing is judged for this case
        self.leave(node, state, 'raise')


def setup(ctx):
    from smartquery import SqParser
    from smartquery import functions
    ctx.P = SqParser()
    ctx.functions = functions
    ctx.table_snapshot = [(k, id(v)) for k, v in functions.FUNCTIONS.items()]
    ctx.table = dict(functions.FUNCTIONS)
    ctx.name_of = {id(v): k for k, v in ctx.table.items()}
    ctx.ref_names = {id(v): k for k, v in refeval.BUILTINS.items()}
    ctx.M1 = M1 = monitors.NodeMonitor()
    ctx.M4 = monitors.ScopeMonitor()
    import sys
    sys.setrecursionlimit(6000)      # the monitors add frames; programs recurse ~100 lambda calls deep in some cases
    ctx.W = W = Watch(ctx)
    M1.on_enter, M1.on_exit, M1.on_raise = W.enter, W.exit, W.raised


def cases(ctx):
    rnd = ctx.rnd
    if ctx.shard == ctx.nshards - 1:
        yield ('repo-tests',)
    yield ('cgf', rnd.getrandbits(30), ctx.scale(5, 100))          # coverage-guided programs under the scope monitors, one fuzzing process per worker
    if ctx.shard == 0:
        for src, body in [('shout = v => upper(v)\nshout("x")\nupper = v => "shadowed"\nshout("x")', None), ('g = (s, len) => len(s)\n[g("ab"), g("ab", v => 99)]', None),
                          ('tri = n => 0 if n == 0 else tri(n - 1) + n\ntri(5)', None), ('f = v => nope + v\ntry_(f, 1)\nz = 5\nz', None),
                          ('try_(v => map([1, 2], w => w + nope), 0)\nq = 1\n[q, hv]', None), ('af(1, 2)\n[hv, hl]', 'hv = 99\nloc = p0 + p1\nhl += [7]\nloc'),
                          ('len = 3\nlen', None), ('f = len => len + 1\n[f(2), len("ab")]', None), ('af(1, 2)\nhl', 'hl += [7]\np0'), ('af(5, 6)\n[hv, hs]', 'hv += 1\nhs = "local"\n[hv, hs]')]:
            yield ('src', src, body)
    for _ in range(ctx.scale(4000, 80000)):
        yield ('gen', rnd.getrandbits(48))


def case_deadline(case):
    return case[2] + 400 if case[0] == 'cgf' else CASE_DEADLINE


def run_text(case, ctx):
    """any program text under the scope monitors alone (no reference evaluator needed): every lookup resolves to the innermost scope that binds the name, the scope
    stack is as deep at the exit or raise of every node as at its entry, no assignment inside a lambda call alters an outer binding, exactly the host scope is
    left at the end, the builtin table is untouched"""
    src = case[1]
    W, M1, M4 = ctx.W, ctx.M1, ctx.M4
    inn = host(ctx)
    ctx.recursion_seen = False
    W.case, W.src, W.stack, W.viol, W.recursion = case, src, [], None, False
    M1.reset()
    M1.lambdas.clear()
    M4.begin()
    try:
        ctx.P.eval(src, inn, None, 2000)
    except RecursionError:
        M4.end()
        return
    except Exception:
        pass
    events = M4.end()
    if W.recursion or ctx.recursion_seen:
        return
    ctx.count('given_texts_run_under_the_scope_monitors')
    detail = {'src': src[:400]}
    for e in events:
        if e[0] == 'get' and not e[5]:
            ctx.violation('a lookup did not resolve to the innermost scope that binds the name', case, detail=dict(detail, name=str(e[2]), stack_depth=e[3], innermost_binding_scope=e[4]))
            return
    if W.viol:
        ctx.violation(W.viol[0], case, finding=W.viol[1], detail=dict(detail, **W.viol[2]))
        if W.viol[1] is None:
            return
    outer = next((e[1] for e in events if e[0] == 'push'), None)
    d = 0
    for e in events:
        if e[1] != outer:
            continue
        if e[0] == 'push':
            d += 1
        elif e[0] == 'pop':
            d -= 1
    if outer is not None and d != 1:
        ctx.violation('at the end of eval the scope stack holds %d scopes above the builtins (expected exactly the host scope)' % d, case, detail=detail)
        return
    if [(k, id(v)) for k, v in ctx.functions.FUNCTIONS.items()] != ctx.table_snapshot:
        ctx.violation('the builtin table was modified', case, detail=detail)
        ctx.functions.FUNCTIONS.clear()
        ctx.functions.FUNCTIONS.update(ctx.table)


def run_cgf(case, ctx):
    """coverage-guided programs: an atheris/libFuzzer process runs THIS check's run_text (scope monitors alone) over the instrumented sandbox copy; programs on which
    an unlisted violation was recorded there are judged again here"""
    from lib import cgdriver
    _, seed, seconds = case
    r = random.Random(seed)
    seeds = ['f = x => x + a\nf(1)', 'g = (s, len) => len(s)\ng("ab", v => 99)', 'h = n => (h(n - 1) + n) if n > 0 else 0\nh(3)', 'try_(v => nope, 1)\nx', 'map([1, 2], a => map([3], b => a + b))',
             'f = v => [hv, v]\nhv = 5\nf(1)', 'x = 1\nf = x => x\nf(2)\nx', 'hm(v => try_(w => w + nope, v), 2)', 'len = 3\nf = len => len\nf(1)', 'reduce([1, 2, 3], (a, b) => a + b)', 'sorted([3, 1], hv => 0 - hv)\nhv']
    for _ in range(8):
        seeds.append('\n'.join(gen_program(r)))
    out = cgdriver.run(ctx, 'check:C10:text', seed, seconds, seeds)
    if out is None:
        return
    st, fired, _slow = out
    for text in fired:
        ctx.count('programs_on_which_the_oracle_fired_in_the_fuzzing_process')
        before = len(ctx.violations)
        run_text(('text', text), ctx)
        if len(ctx.violations) == before:
            ctx.violation('coverage-guided fuzzing: a violation was recorded in the fuzzing process but not when the program was judged again here', ('text', text), detail={'src': text[:300]})


def run_case(case, ctx):
    from smartquery.exceptions import ParserError
    from smartquery.ast_ops import LambdaOp, NameOp
    from checks.c07 import same, names_same
    if case[0] == 'cgf':
        return run_cgf(case, ctx)
    if case[0] == 'text':
        return run_text(case, ctx)
    if case[0] == 'repo-tests':
        # the repository's own tests as a workload for the scope monitors (depth at entry == depth at exit/raise of every node, outer bindings untouched,
        # builtin table unchanged); the tests' assertions are not the oracle, the monitors are
        from lib import repotests
        W = ctx.W
        W.stack, W.viol, W.recursion, W.case, W.src = [], None, False, case, '(repository tests)'
        passed, failed = repotests.run(ctx)
        if W.viol is not None and not W.recursion:
            ctx.violation(W.viol[0], case, finding=W.viol[1], detail=dict(W.viol[2], workload='repository test-suite, %d tests passed' % passed))
        if [(k, id(v)) for k, v in ctx.functions.FUNCTIONS.items()] != ctx.table_snapshot:
            ctx.violation('the builtin table was modified', case, detail={'workload': 'repository test-suite'})
        W.stack, W.viol = [], None
        return
    if case[0] == 'src':
        src, body = case[1], case[2]
    else:
        r = random.Random(case[1])
        src = '\n'.join(gen_program(r))
        body = gen_ast_body(r) if r.random() < 0.3 else None
    try:
        tree = refparser.ref_parse([(t[0], t[1]) for t in reflex.tokens(src)])
        body_tree = refparser.ref_parse([(t[0], t[1]) for t in reflex.tokens(body)]) if body is not None else None
    except (refparser.Reject, reflex.LexError):
        ctx.count('unparsable(dropped)')
        return
    W, M1, M4 = ctx.W, ctx.M1, ctx.M4
    ctx.recursion_seen = False
    base = host(ctx)
    rn = dict(base, hl=list(base['hl']))
    inn = dict(base, hl=list(base['hl']))
    ref_ast = {'af': ('Lambda', (('Name', 'p0'), ('Name', 'p1')), body_tree)} if body_tree is not None else None
    # a host callback that calls back into the evaluator (the SAME parser on the implementation side) with its own names mapping
    INNER = ['iv = 5\n[iv, hv, a]', 'len = 7\nhv = "inner"\n[len, hv]', 'g = v => v + a\ng(1)']

    def ref_reenter(k=0):
        it = refparser.ref_parse([(t[0], t[1]) for t in reflex.tokens(INNER[int(k) % 3])])
        out, _m = refeval.run(it, {'hv': 'inner-hv', 'a': D(100)}, 500)
        if out[0] != 'value':
            raise RuntimeError(out[1])
        return out[1]

    def impl_reenter(k=0):
        return ctx.P.eval(INNER[int(k) % 3], {'hv': 'inner-hv', 'a': D(100)}, None, 500)
    rn['reenter'] = ref_reenter
    inn['reenter'] = impl_reenter
    ref, m = refeval.run(tree, rn, 5000, ref_ast)
    if ref[0] == 'recursion':
        return
    impl_ast = None
    if body is not None:
        try:
            impl_ast = {'af': LambdaOp(args=[NameOp('p0'), NameOp('p1')], expr=ctx.P.parse(body))}
        except Exception:
            ctx.count('ast_body_rejected_by_implementation')
            return
    W.case, W.src, W.stack, W.viol, W.recursion = case, src, [], None, False
    M1.reset()
    M1.lambdas.clear()
    M4.begin()
    try:
        got = ('value', ctx.P.eval(src, inn, impl_ast, 5000))
    except ParserError as e:
        got = ('ops' if type(e).__name__ != 'ParserError' else 'perr', str(e))
    except RecursionError:
        M4.end()
        return
    except Exception as e:
        got = ('other', type(e).__name__)
    events = M4.end()
    if W.recursion or ctx.recursion_seen:
        ctx.count('cases_dropped(RecursionError seen during evaluation)')
        return
    ctx.count('programs_run')
    detail = {'src': src, 'ast_names_body': body, 'expected': (ref[0], repr(ref[1])[:160]), 'got': (got[0], repr(got[1])[:160])}
    # (a) resolution order of every lookup
    outer0 = next((e[1] for e in events if e[0] == 'push'), None)
    pushes = sum(1 for e in events if e[0] == 'push' and e[1] == outer0)
    ctx.count('lookups_checked', sum(1 for e in events if e[0] == 'get'))
    ctx.count('lambda_scopes_pushed', max(0, pushes - 1))
    for e in events:
        if e[0] == 'get' and not e[5]:
            ctx.violation('a lookup did not resolve to the innermost scope that binds the name', case, detail=dict(detail, name=str(e[2]), stack_depth=e[3], innermost_binding_scope=e[4]))
            return
    # (b) balance + outer bindings
    if W.viol:
        ctx.violation(W.viol[0], case, finding=W.viol[1], detail=dict(detail, **W.viol[2]))
        if W.viol[1] is None:
            return
    d = 0
    outer = next((e[1] for e in events if e[0] == 'push'), None)     # the scope stack of THIS eval call (a re-entrant call has its own)
    for e in events:
        if e[1] != outer:
            continue
        if e[0] == 'push':
            d += 1
        elif e[0] == 'pop':
            d -= 1
    if d != 1:
        ctx.violation('at the end of eval the scope stack holds %d scopes above the builtins (expected exactly the host scope)' % d, case, detail=detail)
        return
    # (e) builtin table untouched
    if [(k, id(v)) for k, v in ctx.functions.FUNCTIONS.items()] != ctx.table_snapshot:
        ctx.violation('the builtin table was modified', case, detail=detail)
        ctx.functions.FUNCTIONS.clear()
        ctx.functions.FUNCTIONS.update(ctx.table)
        return
    # (c) (d) (f) value-level consequences against R2
    if W.viol is None:
        what = None
        if got[0] != ref[0]:
            what = 'outcome class differs from the reference scoping semantics: implementation %s, reference %s' % (got[0], ref[0])
        elif got[0] == 'value' and not same(ctx, got[1], ref[1]):
            what = 'result differs from the reference scoping semantics'
        elif not names_same(ctx, {k: v for k, v in inn.items() if k != 'reenter'}, {k: v for k, v in rn.items() if k != 'reenter'}):
            what = 'host names after the call differ (leaked parameter/local, lost top-level assignment or altered host binding)'
            detail['names_impl'] = repr({k: v for k, v in inn.items() if k not in ('try_', 'hm')})[:300]
            detail['names_ref'] = repr({k: v for k, v in rn.items() if k not in ('try_', 'hm')})[:300]
        if what:
            ctx.violation(what, case, detail=detail)
            return
    if pushes > 1:
        ctx.nontriv('%s|%s' % (src, body))
        if ref[0] == 'value':
            ctx.count('programs_with_lambda_calls_completed')
    if ctx.counters['programs_run'] % 500 == 1:
        ctx.sample({'src': src, 'ast_names_body': body, 'outcome': ref[0], 'lambda_scopes_pushed': pushes - 1})


def after_timeout(ctx):
    ctx.W.stack = []
    ctx.M4.end()


def conclusive(m):
    c = m['counters']
    for k, n in (('lookups_checked', 50000), ('lambda_scopes_pushed', 5000), ('programs_with_lambda_calls_completed', 500)):
        if c.get(k, 0) < n:
            return 'monitor counter %s = %d (< %d)' % (k, c.get(k, 0), n)
    return None
