"""C08 - decimal arithmetic is exact: no binary floating-point error.

Monitor: result of SqParser.eval on the real code vs R3 (exact rationals, integer-only half-even rounding to
28 significant digits after every operation) evaluated on the reference parser's tree of the same text.
"""
import decimal
import random
from decimal import Decimal
from fractions import Fraction

from lib import reflex, refparser, refnum

ID = 'C08'
TECHNIQUE = 'online reference-model monitor: results vs exact-rational oracle R3 (integer-only half-even rounding) + decimal-context invariant'
RULE = ('expression trees of depth 1-6 over + - * / unary minus, parentheses, the six comparisons, and round(x[, n]) / floor / ceil / abs / int / '
        'sum / min / max, with literal leaves of 1-45 integer digits and 0-45 fraction digits (leading/trailing zeros, ties at the 28th digit of both '
        'parities, carries, cancellation, mixed signs), rendered with and without redundant parentheses; plus every literal alone. The oracle is '
        'evaluated on the reference parser\'s tree of the rendered text. Non-trivial = the expression contains at least one arithmetic operation or '
        'builtin whose exact result was compared (or a literal compared with its written value); distinct = distinct source text.')
RULE += ' One case in nine is preceded by an arbitrary earlier call on the long-lived parser; after every evaluation the decimal context (precision, rounding, Emax, Emin) must be unchanged.'
RULE += ' One function-call shape in five puts the results of the same builtin (same extra argument, e.g. round(a, -1) / round(b, -1)) on both sides of an operator.'
RULE += ' min / max over host iterables of nine flavours (list, tuple, list iterator, generator, reversed, map object, deque, dict views) with the extreme value first; one case in nine is preceded by an earlier call from the shared kit, which now includes arithmetic that fails midway.'
ASSUMPTIONS = ['28 significant digits, round-half-even, applied after every operation including unary minus and abs (the decimal context the language documents)',
               'round(x, n) may refuse a result whose coefficient needs more than 28 digits (quantize); then either the exact value or an error is accepted',
               'division by zero must be an error (class not asserted here)']
FINDINGS = {}
CASE_DEADLINE = 10


def setup(ctx):
    from smartquery import SqParser
    ctx.P = SqParser()
    c = decimal.getcontext()
    ctx.decimal_context = (c.prec, c.rounding, c.Emax, c.Emin)


SPECIAL = ['0', '1', '2', '3', '7', '10', '0.1', '0.2', '0.3', '0.5', '0.25', '1.10', '007', '0.0', '00.500', '9', '99', '0.9',
           '1234567890123456789012345678', '12345678901234567890123456785', '12345678901234567890123456775', '1234567890123456789012345678.5',
           '1234567890123456789012345677.5', '9999999999999999999999999999', '99999999999999999999999999995', '0.00000000000000000000000000005',
           '100000000000000', '100000000000001', '33333333333333.33333333333333', '0.1000000000000000055511151231257827', '1.0000000000000000000000000001',
           '4503599627370497', '9007199254740993', '0.30000000000000004', '179769313486231570000', '2.675', '1.005', '0.125', '2.5', '3.5', '0.045']


def literal(r):
    x = r.random()
    if x < 0.35:
        return r.choice(SPECIAL)
    ni = r.choice([1, 1, 2, 3, 5, 10, 14, 15, 27, 28, 29, 30, 45])
    nf = r.choice([0, 0, 1, 2, 3, 5, 14, 15, 27, 28, 29, 45])
    ip = ''.join(r.choice('0123456789') for _ in range(ni))
    if r.random() < 0.2:
        ip = r.choice(['9' * ni, '1' + '0' * (ni - 1), '4' * ni + '5'])
    s = ip
    if nf:
        fp = ''.join(r.choice('0123456789') for _ in range(nf))
        if r.random() < 0.2:
            fp = r.choice(['5', '50', '5' + '0' * (nf - 1), '9' * nf, '0' * (nf - 1) + '1', '0' * (nf - 1) + '5'])
        s += '.' + fp
    return s


def gen_expr(r, depth, top=True):
    """-> source text of a numeric expression"""
    if depth <= 0 or r.random() < 0.2:
        return literal(r)
    x = r.random()
    if x < 0.62:
        op = r.choice(['+', '-', '*', '/', '+', '*', '-'])
        a, b = gen_expr(r, depth - 1, False), gen_expr(r, depth - 1, False)
        if r.random() < 0.7:
            return '(%s %s %s)' % (a, op, b)
        return '%s %s %s' % (a, op, b)          # grouping left to the precedence table; the oracle reads the text
    if x < 0.72:
        return '-%s' % gen_expr(r, depth - 1, False) if r.random() < 0.5 else '-(%s)' % gen_expr(r, depth - 1, False)
    if x < 0.80:
        return '(%s)' % gen_expr(r, depth - 1, False)
    f = r.choice(['round', 'round2', 'floor', 'ceil', 'abs', 'int', 'sum', 'min', 'max', 'minl', 'maxl'])
    a = gen_expr(r, depth - 1, False)
    if r.random() < 0.2:
        # the results of one builtin (same extra argument) on both sides of an operator: whatever representation a builtin hands back meets arithmetic
        b = gen_expr(r, depth - 1, False)
        if f == 'round2':
            nd = r.choice(['0', '1', '2', '5', '27', '-1', '-2', '-5', '-1', '-3'])
            fa, fb = 'round(%s, %s)' % (a, nd), 'round(%s, %s)' % (b, nd)
        elif f in ('sum', 'minl', 'maxl'):
            g = f.rstrip('l') if f != 'sum' else 'sum'
            fa, fb = '%s([%s])' % (g, a), '%s([%s, %s])' % (g, b, a)
        elif f in ('min', 'max'):
            fa, fb = '%s(%s, %s)' % (f, a, b), '%s(%s, %s)' % (f, b, literal(r))
        else:
            fa, fb = '%s(%s)' % (f, a), '%s(%s)' % (f, b)
        op = r.choice(['/', '/', '*', '+', '-'])
        return r.choice(['(%s %s %s)', '%s %s %s', '-%s %s %s', '(%s %s %s) / 3']) % (fa, op, fb)
    if f == 'round2':
        return 'round(%s, %s)' % (a, r.choice(['0', '1', '2', '3', '5', '10', '20', '27', '30', '-1', '-2', '-5', '2.7', '1.5', '50', '200', '-40']))
    if f in ('sum', 'minl', 'maxl'):
        items = [a] + [gen_expr(r, depth - 2, False) for _ in range(r.randint(0, 4))]
        return '%s([%s])' % (f.rstrip('l') if f != 'sum' else 'sum', ', '.join(items))
    if f in ('min', 'max'):
        items = [a] + [gen_expr(r, depth - 2, False) for _ in range(r.randint(1, 3))]
        return '%s(%s)' % (f, ', '.join(items))
    return '%s(%s)' % (f, a)


def cases(ctx):
    rnd = ctx.rnd
    if ctx.shard == 0:
        yield ('src', '0.1 + 0.2 == 0.3')
        yield ('src', '0.1 + 0.2')
        yield ('src', '1.1 * 3')
        yield ('src', 'round(2.675, 2)')
        yield ('src', 'round(0.125, 2)')
        yield ('src', '9007199254740993 + 0')
        yield ('src', '1 / 3 * 3')
        for a in SPECIAL:
            yield ('src', a)
    for _ in range(ctx.scale(600, 10000)):
        yield ('iter', rnd.getrandbits(48))
    for _ in range(ctx.scale(12000, 200000)):
        r = random.Random(rnd.getrandbits(48))
        if r.random() < 0.12:
            yield ('src', literal(r))
        elif r.random() < 0.25:
            yield ('src', '%s %s %s' % (gen_expr(r, r.randint(0, 3)), r.choice(['==', '!=', '<', '>', '<=', '>=']), gen_expr(r, r.randint(0, 3))))
        else:
            yield ('src', gen_expr(r, r.randint(1, 6)))


def to_fraction(v):
    if isinstance(v, bool):
        return v
    if isinstance(v, Decimal):
        if not v.is_finite():
            return ('nonfinite', str(v))
        return Fraction(v)
    if isinstance(v, int):
        return Fraction(v)
    if isinstance(v, list):
        return [to_fraction(x) for x in v]
    return ('type', type(v).__name__, repr(v)[:60])


def has_float(v):
    if isinstance(v, float):
        return True
    if isinstance(v, (list, tuple)):
        return any(has_float(x) for x in v)
    return False


def run_iter_case(case, ctx):
    """min / max over host-supplied iterables of every protocol flavour (list, tuple, one-shot iterators, generators, views, deque): exact extreme"""
    import collections
    r = random.Random(case[1])
    k = r.randint(1, 6)
    vals = [Decimal(literal(r)) for _ in range(k)]
    if r.random() < 0.6:
        # the extreme value first (where a probe that consumes one element would lose it)
        vals.sort(reverse=r.random() < 0.5)
    flavour = r.randrange(9)
    xs = [list(vals), tuple(vals), iter(list(vals)), (v for v in list(vals)), reversed(list(vals)[::-1]), map(lambda v: v, list(vals)), collections.deque(vals),
          dict.fromkeys(vals).keys(), {i: v for i, v in enumerate(vals)}.values()][flavour]
    f = r.choice(['min', 'max'])
    src = r.choice(['%s(xs)', 'xs | %s', '[%s(xs)][0]', '%s(xs) == %s(ys)']).replace('%s', f)
    names = {'xs': xs, 'ys': list(vals)}
    try:
        got = ctx.P.eval(src, names, None, 1000)
    except Exception as e:
        ctx.violation('raised %s where the exact result exists' % type(e).__name__, case, detail={'src': src, 'iterable': type(xs).__name__, 'values': [str(v) for v in vals], 'error': str(e)[:100]})
        return
    exp = (min if f == 'min' else max)(Fraction(v) for v in vals)
    ctx.count('compared')
    ctx.count('extremes_of_host_iterables_compared')
    ctx.cov('host_iterable_flavours', type(xs).__name__)
    ctx.nontriv('%s|%d|%s' % (src, flavour, vals))
    if '==' in src:
        if got is not True:
            ctx.violation('comparison disagrees with exact rational order', case, detail={'src': src, 'iterable': type(xs).__name__, 'values': [str(v) for v in vals], 'got': repr(got)})
        return
    if has_float(got) or not isinstance(got, (Decimal, int)) or Fraction(got) != exp:
        ctx.violation('result is not the correctly rounded exact result', case, detail={'src': src, 'iterable': type(xs).__name__, 'values': [str(v) for v in vals], 'got': repr(got), 'expected': str(exp)})


def run_case(case, ctx):
    if case[0] == 'iter':
        return run_iter_case(case, ctx)
    src = case[1]
    try:
        tree = refparser.ref_parse([(t[0], t[1]) for t in reflex.tokens(src)])
    except (refparser.Reject, reflex.LexError):
        ctx.count('generator_produced_unparsable_text(dropped)')
        return
    try:
        exp = refnum.evaluate(tree)
        exp_err = None
    except refnum.RefError as e:
        exp, exp_err = None, e
    except refnum.Unsupported:
        ctx.count('outside_R3_fragment(dropped)')
        return
    except RecursionError:
        return
    if hash(src) % 9 == 0:
        from lib import gram
        gram.earlier_call(ctx.P, gram.Cyc(hash(src) & 0xffff))       # whatever the parser served before must not change what a literal denotes
        ctx.count('cases_preceded_by_an_arbitrary_earlier_call')
    try:
        got = ctx.P.eval(src, {}, None, 10 ** 5)
        got_err = None
    except Exception as e:
        got, got_err = None, e
    ctx.count('compared')
    ctx.nontriv(src)
    c = decimal.getcontext()
    if (c.prec, c.rounding, c.Emax, c.Emin) != ctx.decimal_context:
        ctx.violation('evaluation left the decimal context changed (precision/rounding of every later operation)', case,
                      detail={'src': src, 'context_now': repr(c)[:200], 'expected(prec, rounding, Emax, Emin)': ctx.decimal_context})
        c.prec, c.rounding, c.Emax, c.Emin = ctx.decimal_context
    if exp_err is not None:
        ctx.count('division_by_zero_cases')
        if got_err is None:
            ctx.violation('division by zero returned a value', case, detail={'src': src, 'value': repr(got)})
        return
    maybe = isinstance(exp, refnum.Maybe)
    if maybe:
        exp = exp.v
        ctx.count('quantize_may_refuse_cases')
    if got_err is not None:
        if maybe:
            return
        ctx.violation('raised %s where the exact result exists' % type(got_err).__name__, case,
                      detail={'src': src, 'error': str(got_err)[:200], 'expected': str(exp)})
        return
    if has_float(got):
        ctx.violation('result has Python type float', case, detail={'src': src, 'value': repr(got)})
        return
    g = to_fraction(got)
    if isinstance(exp, bool) != isinstance(g, bool) or g != exp:
        what = 'comparison disagrees with exact rational order' if isinstance(exp, bool) else \
               ('literal does not denote its written value' if all(c in '0123456789.' for c in src) else 'result is not the correctly rounded exact result')
        ctx.violation(what, case, detail={'src': src, 'got': repr(got), 'expected': str(exp) if isinstance(exp, bool) else '%s/%s' % (exp.numerator, exp.denominator)})
    if isinstance(exp, bool):
        ctx.count('comparisons_checked')
    for f in ('round', 'floor', 'ceil', 'abs', 'int', 'sum', 'min', 'max', ' / ', ' * ', ' + ', ' - '):
        if f in src:
            ctx.cov('operations_in_compared_programs', f.strip())
    if ctx.counters['compared'] % 800 == 1:
        ctx.sample({'src': src, 'value': repr(got)})


def conclusive(m):
    c = m['counters']
    if c.get('compared', 0) < 3000:
        return 'only %d results compared' % c.get('compared', 0)
    if c.get('comparisons_checked', 0) < 200 or c.get('division_by_zero_cases', 0) < 5:
        return 'comparison / division-by-zero cases missing'
    if len(m['cover'].get('operations_in_compared_programs', ())) < 12:
        return 'operations missing from the workload'
    return None
